// C17: DIAG-REQUIREMENT is a plain string in 4.0.1 and pattern-restricted ([0-9a-zA-Z_\-]+) from 4.0.2 on (the element type of the same name differs per version).
// before 'fix: check_version_compatibility() only judged enum values': compat errors 0, mask contains 4.0.2, set_version Ok, strict reload fails. after: 1 error, set_version Err.
use autosar_data::*;
use autosar_data_specification::*;
fn main(){
    // find a path from the root type to DIAG-REQUIREMENT by BFS over the specification
    use std::collections::{HashMap, VecDeque};
    let root = ElementType::ROOT;
    let mut prev: HashMap<ElementType, (ElementType, ElementName)> = HashMap::new();
    let mut dq = VecDeque::new(); dq.push_back(root);
    let mut target = None;
    while let Some(t) = dq.pop_front() {
        for (name, et, vm, _) in t.sub_element_spec_iter() {
            if vm & 1 == 0 { continue; }
            if !prev.contains_key(&et) && et != root { prev.insert(et, (t, name)); dq.push_back(et);
                if name == ElementName::DiagRequirement { target = Some(et); break; } }
        }
        if target.is_some() { break; }
    }
    let mut path = vec![]; let mut cur = target.expect("not in spec");
    while cur != root { let (p, n) = prev[&cur]; path.push(n); cur = p; }
    path.reverse();
    println!("{:?}", path);
    let m = AutosarModel::new();
    let f = m.create_file("f.arxml", AutosarVersion::Autosar_4_0_1).unwrap();
    let mut e = m.root_element();
    for n in &path[0..] {
        let named = e.list_valid_sub_elements().into_iter().find(|v| v.element_name == *n).map(|v| v.is_named).unwrap_or(false);
        e = if named { e.create_named_sub_element(*n, "N").unwrap() } else { e.get_or_create_sub_element(*n).unwrap() };
    }
    println!("at {}", e.xml_path());
    println!("set hello world: {:?}", e.set_character_data("hello world").map_err(|x| x.to_string()));
    let (errs, mask) = f.check_version_compatibility(AutosarVersion::Autosar_4_0_2);
    println!("compat errors vs 4.0.2: {} ; mask has 4.0.2: {}", errs.len(), mask & (AutosarVersion::Autosar_4_0_2 as u32) != 0);
    println!("set_version: {:?}", f.set_version(AutosarVersion::Autosar_4_0_2).is_ok());
    let text = f.serialize().unwrap();
    let m2 = AutosarModel::new();
    println!("strict reload: {:?}", m2.load_buffer(text.as_bytes(), "g.arxml", true).map(|_| ()).map_err(|e| e.to_string()));
}

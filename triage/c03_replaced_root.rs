// C03: the empty root element of a new model is replaced by the root of the first loaded file.
// before 'fix: the root element that is replaced by the first loaded file stayed attached to the model':
// the old handle still answers model() = Ok and parent() = Ok(None) like a live root, although model.root_element() is another element.
// after: old.model() is Err (element not in a model).
use autosar_data::*;
fn main() {
    let text = r#"<?xml version="1.0" encoding="utf-8"?>
<AUTOSAR xsi:schemaLocation="http://autosar.org/schema/r4.0 AUTOSAR_00050.xsd" xmlns="http://autosar.org/schema/r4.0" xmlns:xsi="http://www.w3.org/2001/XMLSchema-instance">
<AR-PACKAGES><AR-PACKAGE><SHORT-NAME>Pkg</SHORT-NAME></AR-PACKAGE></AR-PACKAGES></AUTOSAR>"#;
    let m = AutosarModel::new();
    let old = m.root_element();
    m.load_buffer(text.as_bytes(), "f.arxml", true).unwrap();
    println!("same root after load: {}", old == m.root_element());
    println!("old.model(): {:?}", old.model().map(|_| "Ok").map_err(|e| e.to_string()));
    println!("old.parent(): {:?}", old.parent().map(|p| p.is_some()).map_err(|e| e.to_string()));
}

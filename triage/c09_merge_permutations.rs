use autosar_data::*;
use std::collections::BTreeSet;
fn doc(elems: &[&(&str, &str)]) -> String {
    let body: String = elems.iter().map(|(k, n)| format!("<{k}><SHORT-NAME>{n}</SHORT-NAME></{k}>")).collect();
    format!(r#"<?xml version="1.0" encoding="utf-8"?>
<AUTOSAR xsi:schemaLocation="http://autosar.org/schema/r4.0 AUTOSAR_00050.xsd" xmlns="http://autosar.org/schema/r4.0" xmlns:xsi="http://www.w3.org/2001/XMLSchema-instance">
<AR-PACKAGES><AR-PACKAGE><SHORT-NAME>Pkg</SHORT-NAME><ELEMENTS>{}</ELEMENTS></AR-PACKAGE></AR-PACKAGES></AUTOSAR>"#, body)
}
fn perms<T: Clone>(v: &[T]) -> Vec<Vec<T>> {
    if v.len() <= 1 { return vec![v.to_vec()]; }
    let mut out = vec![];
    for i in 0..v.len() { let mut rest = v.to_vec(); let x = rest.remove(i); for mut p in perms(&rest) { p.insert(0, x.clone()); out.push(p); } }
    out
}
fn main() {
    let master = [("SYSTEM", "S1"), ("SYSTEM", "S2"), ("CAN-CLUSTER", "C"), ("ECU-INSTANCE", "E"), ("CAN-CLUSTER", "C2")];
    let mut cases = 0; let mut bad = 0;
    for mask_a in 1u32..32 { for mask_b in 1u32..32 {
        let sa: Vec<&(&str,&str)> = master.iter().enumerate().filter(|(i,_)| mask_a & (1<<i) != 0).map(|(_,e)| e).collect();
        let sb: Vec<&(&str,&str)> = master.iter().enumerate().filter(|(i,_)| mask_b & (1<<i) != 0).map(|(_,e)| e).collect();
        if sa.len() > 3 || sb.len() > 3 { continue; }
        for pa in perms(&sa) { for pb in perms(&sb) {
            cases += 1;
            let model = AutosarModel::new();
            model.load_buffer(doc(&pa).as_bytes(), "a.arxml", true).unwrap();
            let r = model.load_buffer(doc(&pb).as_bytes(), "b.arxml", true);
            let got: Vec<String> = model.elements_dfs().filter(|(_, e)| e.is_identifiable() && e.element_name() != ElementName::ArPackage).map(|(_, e)| format!("{}:{}", e.element_name(), e.item_name().unwrap())).collect();
            let want: BTreeSet<String> = pa.iter().chain(pb.iter()).map(|(k,n)| format!("{k}:{n}")).collect();
            let gotset: BTreeSet<String> = got.iter().cloned().collect();
            // per-file views
            let fa = model.files().find(|f| f.filename().to_str() == Some("a.arxml")).unwrap();
            let in_a: BTreeSet<String> = fa.elements_dfs().filter(|(_, e)| e.is_identifiable() && e.element_name() != ElementName::ArPackage).map(|(_, e)| format!("{}:{}", e.element_name(), e.item_name().unwrap())).collect();
            let want_a: BTreeSet<String> = pa.iter().map(|(k,n)| format!("{k}:{n}")).collect();
            if r.is_err() || got.len() != gotset.len() || gotset != want || in_a != want_a {
                bad += 1;
                if bad <= 5 { println!("BAD a={:?} b={:?} -> {:?} r={:?} in_a={:?}", pa, pb, got, r.as_ref().map(|_| ()), in_a); }
            }
        }}
    }}
    println!("cases {} bad {}", cases, bad);
}

// C08 (strict validation has no holes): two inputs that strict loading accepted on the tree before the repairs
//   1. numeric character references with a sign: "&#x+41;" / "&#+65;" were decoded to "A"/"B" (u32::from_str_radix and
//      u32::from_str accept a leading '+'); XML allows digits only -> "malformed entity" must be reported.
//   2. a Pattern value was validated BEFORE entity decoding while the decoded text is stored:
//      REVISION-LABEL "1.0.0;&#10;x" matches [0-9]+\.[0-9]+\.[0-9]+([\._;].*)? in its escaped form, the stored value
//      "1.0.0;\nx" does not ('.' excludes line breaks); the serializer writes a raw line break and the file no longer loads strictly.
//      The same defect rejected the valid <SHORT-NAME>&#x41;</SHORT-NAME> ("A").
// Run as src/main.rs of a crate that depends on autosar-data (path dependency on /repo/autosar-data).
// before 'fix: numeric character references ...' / 'fix: pattern and length limit ...':   1: OK/OK   2: OK, reload fails   3: ERR
// after:                                                                                 1: ERR/ERR 2: ERR               3: OK
use autosar_data::*;
fn load(body: &str, strict: bool) -> String {
    let hdr = r#"<?xml version="1.0" encoding="utf-8"?>
<AUTOSAR xsi:schemaLocation="http://autosar.org/schema/r4.0 AUTOSAR_00050.xsd" xmlns="http://autosar.org/schema/r4.0" xmlns:xsi="http://www.w3.org/2001/XMLSchema-instance">"#;
    let doc = format!("{hdr}{body}</AUTOSAR>");
    let m = AutosarModel::new();
    match m.load_buffer(doc.as_bytes(), "f.arxml", strict) {
        Ok((f, w)) => {
            let text = f.serialize().unwrap_or_default();
            let m2 = AutosarModel::new();
            let again = m2.load_buffer(text.as_bytes(), "g.arxml", true).is_ok();
            format!("OK warnings={} reload_strict={}", w.len(), again)
        }
        Err(e) => format!("ERR {e}"),
    }
}
fn main() {
    let cases = [
        ("1a signed hex reference", "<AR-PACKAGES><AR-PACKAGE><SHORT-NAME>P</SHORT-NAME><LONG-NAME><L-4 L=\"EN\">x&#x+41;y</L-4></LONG-NAME></AR-PACKAGE></AR-PACKAGES>"),
        ("1b signed decimal reference", "<AR-PACKAGES><AR-PACKAGE><SHORT-NAME>P</SHORT-NAME><LONG-NAME><L-4 L=\"EN\">x&#+66;y</L-4></LONG-NAME></AR-PACKAGE></AR-PACKAGES>"),
        ("2 pattern violated only after decoding", "<ADMIN-DATA><DOC-REVISIONS><DOC-REVISION><REVISION-LABEL>1.0.0;&#10;x</REVISION-LABEL></DOC-REVISION></DOC-REVISIONS></ADMIN-DATA>"),
        ("3 valid name written with a character reference", "<AR-PACKAGES><AR-PACKAGE><SHORT-NAME>&#x41;</SHORT-NAME></AR-PACKAGE></AR-PACKAGES>"),
    ];
    for (name, body) in cases {
        println!("{name}: strict {} | lenient {}", load(body, true), load(body, false));
    }
}

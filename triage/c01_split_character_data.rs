// C01: a comment inside a character-data-only element splits its text into two pieces.
// before 'fix: a character data element silently lost text that follows a comment': lenient AND strict load Ok without warnings,
// item_name = "Pk", serialize writes <SHORT-NAME>Pk</SHORT-NAME> (text "g" lost silently).
// after: strict load fails (CharacterContentForbidden), lenient load reports the same as a warning.
use autosar_data::*;
fn main() {
    let text = r#"<?xml version="1.0" encoding="utf-8"?>
<AUTOSAR xsi:schemaLocation="http://autosar.org/schema/r4.0 AUTOSAR_00050.xsd" xmlns="http://autosar.org/schema/r4.0" xmlns:xsi="http://www.w3.org/2001/XMLSchema-instance">
<AR-PACKAGES><AR-PACKAGE><SHORT-NAME>Pk<!-- c -->g</SHORT-NAME></AR-PACKAGE></AR-PACKAGES></AUTOSAR>"#;
    for strict in [true, false] {
        let m = AutosarModel::new();
        match m.load_buffer(text.as_bytes(), "f.arxml", strict) {
            Ok((f, w)) => {
                let names: Vec<_> = m.identifiable_elements().map(|(p, _)| p).collect();
                println!("strict={strict}: loaded, {} warnings {:?}, paths {:?}", w.len(), w.iter().map(|x| x.to_string()).collect::<Vec<_>>(), names);
                let out = f.serialize().unwrap();
                println!("  serialized SHORT-NAME line: {:?}", out.lines().find(|l| l.contains("SHORT-NAME")));
            }
            Err(e) => println!("strict={strict}: rejected: {e}"),
        }
    }
}

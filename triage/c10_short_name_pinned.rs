// C10: add_to_file of a sub element of a named, splittable element pinned the SHORT-NAME of that element to the previous file set.
// before "fix: add_to_file gave the SHORT-NAME of a named element its own, smaller file set" (1e4832b): short name files (true, 1), the file serialized for f2 fails strict loading (RequiredSubelementMissing); after: (false, 2), loads.
use autosar_data::*;
use autosar_data_specification::*;
use std::collections::{HashMap, VecDeque};
fn main() {
    // BFS for a named element type whose own type is splittable
    let root = ElementType::ROOT;
    let mut prev: HashMap<ElementType, (ElementType, ElementName)> = HashMap::new();
    let mut dq = VecDeque::new(); dq.push_back(root);
    let mut found = vec![];
    while let Some(t) = dq.pop_front() {
        for (name, et, vm, _) in t.sub_element_spec_iter() {
            if vm & (AutosarVersion::LATEST as u32) == 0 { continue; }
            if !prev.contains_key(&et) && et != root { prev.insert(et, (t, name)); dq.push_back(et);
                if et.is_named() && et.splittable() != 0 && found.len() < 3 && name != ElementName::ArPackage { found.push(et); } }
        }
    }
    for target in found {
        let mut path = vec![]; let mut cur = target;
        while cur != root { let (p, n) = prev[&cur]; path.push(n); cur = p; }
        path.reverse();
        println!("{:?}", path);
        let m = AutosarModel::new();
        let _f1 = m.create_file("f1.arxml", AutosarVersion::LATEST).unwrap();
        let mut e = m.root_element();
        let mut ok = true;
        for n in &path {
            let named = e.list_valid_sub_elements().into_iter().find(|v| v.element_name == *n).map(|v| v.is_named).unwrap_or(false);
            let r = if named { e.create_named_sub_element(*n, "N") } else { e.get_or_create_sub_element(*n) };
            match r { Ok(x) => e = x, Err(err) => { println!("  cannot build: {err}"); ok = false; break; } }
        }
        if !ok { continue; }
        // give it a second sub element (any valid one)
        let child = e.list_valid_sub_elements().into_iter().filter(|v| v.is_allowed && !v.is_named && v.element_name != ElementName::ShortName).next();
        let Some(ci) = child else { println!("  no child"); continue; };
        let c = e.create_sub_element(ci.element_name).unwrap();
        let f2 = m.create_file("f2.arxml", AutosarVersion::LATEST).unwrap();
        println!("  add {} to f2: {:?}", c.element_name(), c.add_to_file(&f2));
        let sn = e.get_sub_element(ElementName::ShortName).unwrap();
        println!("  named elem files {:?}, short name files {:?}", e.file_membership().map(|(l,s)|(l,s.len())), sn.file_membership().map(|(l,s)|(l,s.len())));
        let t2 = f2.serialize().unwrap();
        let m2 = AutosarModel::new();
        println!("  f2 alone strict: {:?}", m2.load_buffer(t2.as_bytes(), "x.arxml", true).map(|_| ()).map_err(|e| e.to_string()));
    }
}

use autosar_data::*;
fn main() {
    // source model: /Pkg/Cluster (target, stays) and /Pkg2/Sys with a reference to /Pkg/Cluster
    let m1 = AutosarModel::new();
    m1.create_file("a.arxml", AutosarVersion::LATEST).unwrap();
    let pkgs = m1.root_element().create_sub_element(ElementName::ArPackages).unwrap();
    let sys = pkgs.create_named_sub_element(ElementName::ArPackage, "Pkg2").unwrap().create_sub_element(ElementName::Elements).unwrap()
        .create_named_sub_element(ElementName::System, "Sys").unwrap();
    let r = sys.create_sub_element(ElementName::FibexElements).unwrap().create_sub_element(ElementName::FibexElementRefConditional).unwrap()
        .create_sub_element(ElementName::FibexElementRef).unwrap();
    r.set_character_data("/Pkg/Cluster").unwrap();
    r.set_attribute(AttributeName::Dest, CharacterData::Enum(EnumItem::CanCluster)).unwrap();
    // destination model
    let m2 = AutosarModel::new();
    m2.create_file("b.arxml", AutosarVersion::LATEST).unwrap();
    let el2 = m2.root_element().create_sub_element(ElementName::ArPackages).unwrap().create_named_sub_element(ElementName::ArPackage, "Dst").unwrap()
        .create_sub_element(ElementName::Elements).unwrap();
    println!("before: m1 referrers of /Pkg/Cluster = {}", m1.get_references_to("/Pkg/Cluster").len());
    el2.move_element_here(&sys).unwrap();
    println!("after move: m1 referrers = {}, m2 referrers = {}, m2 check_references reports {} dangling", m1.get_references_to("/Pkg/Cluster").len(), m2.get_references_to("/Pkg/Cluster").len(), m2.check_references().len());
    let refs_in_m2 = m2.elements_dfs().filter(|(_, e)| e.is_reference()).count();
    println!("reference elements in m2: {}", refs_in_m2);
}

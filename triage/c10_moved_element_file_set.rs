// C10: an element that carries its own file set keeps it when it is moved. Before "fix: a moved element kept the file set it had below its old parent":
// same model: E is attributed to f1 while its new parent is only in f2 -> E is written to NO file; cross-model: the set names a file of the other model.
// after the fix the moved subtree inherits the files of the new parent.
use autosar_data::*;
fn main() {
    // one model, two files: /A (with element E) only in f1, /B only in f2
    let m = AutosarModel::new();
    let f1 = m.create_file("f1.arxml", AutosarVersion::LATEST).unwrap();
    let f2 = m.create_file("f2.arxml", AutosarVersion::LATEST).unwrap();
    let pkgs = m.root_element().create_sub_element(ElementName::ArPackages).unwrap();
    let a = pkgs.create_named_sub_element(ElementName::ArPackage, "A").unwrap();
    let b = pkgs.create_named_sub_element(ElementName::ArPackage, "B").unwrap();
    b.remove_from_file(&f1).unwrap();
    let ea = a.create_sub_element(ElementName::Elements).unwrap();
    let e = ea.create_named_sub_element(ElementName::System, "E").unwrap();
    // give E its own file set (as a merge of two files does for every element below a split point)
    e.remove_from_file(&f2).unwrap();
    println!("E local set before: {:?}", e.file_membership().map(|(l, s)| (l, s.len())));
    let eb = b.create_sub_element(ElementName::Elements).unwrap();
    let moved = eb.move_element_here(&e).unwrap();
    let (local, set) = moved.file_membership().unwrap();
    let (_, pset) = eb.file_membership().unwrap();
    println!("after move: E own set = {} ({} files), parent files = {}, E's files within parent's: {}", local, set.len(), pset.len(), set.is_subset(&pset));
    let in_f1 = f1.serialize().unwrap().contains(">E<");
    let in_f2 = f2.serialize().unwrap().contains(">E<");
    println!("E written to f1: {in_f1}, to f2: {in_f2}");
    // cross-model move
    let m2 = AutosarModel::new();
    let g = m2.create_file("g.arxml", AutosarVersion::LATEST).unwrap();
    let p2 = m2.root_element().create_sub_element(ElementName::ArPackages).unwrap().create_named_sub_element(ElementName::ArPackage, "P").unwrap();
    let e2 = p2.create_sub_element(ElementName::Elements).unwrap();
    let moved2 = e2.move_element_here(&moved).unwrap();
    let (l2, s2) = moved2.file_membership().unwrap();
    let foreign = s2.iter().filter(|w| w.upgrade().map(|f| f != g).unwrap_or(true)).count();
    println!("cross-model: own set = {l2}, files of the other model in its set: {foreign}; written to g: {}", g.serialize().unwrap().contains(">E<"));
}

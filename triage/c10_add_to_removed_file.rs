use autosar_data::*;
fn main() {
    let model = AutosarModel::new();
    let f1 = model.create_file("a.arxml", AutosarVersion::LATEST).unwrap();
    let f2 = model.create_file("b.arxml", AutosarVersion::LATEST).unwrap();
    let pkg = model.root_element().create_sub_element(ElementName::ArPackages).unwrap().create_named_sub_element(ElementName::ArPackage, "Pkg").unwrap();
    model.remove_file(&f2);
    println!("files: {:?}", model.files().map(|f| f.filename()).collect::<Vec<_>>());
    println!("add_to_file(removed file): {:?}", pkg.add_to_file(&f2));
    let (_, fm) = pkg.file_membership().unwrap();
    println!("pkg membership has {} files; members not in model.files(): {}", fm.len(), fm.iter().filter(|w| w.upgrade().map_or(true, |f| !model.files().any(|g| g == f))).count());
    println!("remove_from_file(removed file): {:?}", pkg.remove_from_file(&f2));
    let _ = f1;
}

use autosar_data::*;
use std::sync::{Arc, atomic::{AtomicBool, Ordering}};
fn main() {
    let model = AutosarModel::new();
    model.create_file("a.arxml", AutosarVersion::LATEST).unwrap();
    let pkgs = model.root_element().create_sub_element(ElementName::ArPackages).unwrap();
    for i in 0..3000 { pkgs.create_named_sub_element(ElementName::ArPackage, &format!("P{:05}", 3000 - i)).unwrap(); }
    let target = pkgs.create_named_sub_element(ElementName::ArPackage, "Target").unwrap();
    let l2 = target.create_sub_element(ElementName::Desc).unwrap().create_sub_element(ElementName::L2).unwrap();
    let stop = Arc::new(AtomicBool::new(false));
    let (p2, s2) = (pkgs.clone(), stop.clone());
    let b = std::thread::spawn(move || { while !s2.load(Ordering::Relaxed) { p2.sort(); } });
    let (mut lockfail, mut partial, mut ok) = (0, 0, 0);
    for _ in 0..20000 {
        // (re)build mixed content with several sub elements; creation may itself fail with the lock error, retry
        while l2.sub_elements().count() < 6 { let _ = l2.create_sub_element(ElementName::Br); }
        let before = l2.sub_elements().count();
        match l2.set_character_data("text") {
            Ok(()) => ok += 1,
            Err(AutosarDataError::ParentElementLocked) => {
                lockfail += 1;
                let after = l2.sub_elements().count();
                if after != before { partial += 1; if partial == 1 { println!("ParentElementLocked returned, but {} of {} sub elements were already removed", before - after, before); } }
            }
            Err(e) => println!("other {e}"),
        }
        if partial >= 3 { break; }
    }
    stop.store(true, Ordering::Relaxed); b.join().unwrap();
    println!("ok={} lockfail={} failed-after-partial-effect={}", ok, lockfail, partial);
}

use autosar_data::*;
fn build(order: &[&str]) -> (AutosarModel, Element) {
    let model = AutosarModel::new();
    model.create_file("a.arxml", AutosarVersion::LATEST).unwrap();
    let pkgs = model.root_element().create_sub_element(ElementName::ArPackages).unwrap();
    for n in order { pkgs.create_named_sub_element(ElementName::ArPackage, n).unwrap(); }
    (model, pkgs)
}
fn names(p: &Element) -> Vec<String> { p.sub_elements().map(|e| e.item_name().unwrap()).collect() }
fn main() {
    let (_m, p) = build(&["a2", "a10", "a1b"]);
    let e: Vec<Element> = p.sub_elements().collect();
    println!("a2<a10: {:?}  a10<a1b: {:?}  a1b<a2: {:?}", e[0].cmp(&e[1]), e[1].cmp(&e[2]), e[2].cmp(&e[0]));
    let mut results = vec![];
    for perm in [["a2","a10","a1b"],["a10","a1b","a2"],["a1b","a2","a10"],["a1b","a10","a2"],["a2","a1b","a10"],["a10","a2","a1b"]] {
        let (m, p) = build(&perm); m.sort(); let once = names(&p); m.sort(); let twice = names(&p);
        results.push((perm, once.clone(), once == twice));
    }
    for r in &results { println!("{:?} -> {:?} idempotent={}", r.0, r.1, r.2); }
    println!("all orders give the same result: {}", results.iter().all(|r| r.1 == results[0].1));
}

// Design-time triage program (NOT part of the checking machinery, not a registered command).
// It reproduces, against the real crate, the defects that DESIGN.md §6 marks "confirmed".
// Build: copy to a scratch dir as src/main.rs next to Cargo.toml.txt (renamed Cargo.toml) and
// /repo/Cargo.lock, `cargo build --offline`, then run `tri <case>`; hang cases need `timeout 5`.
use autosar_data::*;
use autosar_data_specification::*;
use std::collections::{HashSet, VecDeque};
use std::panic::{catch_unwind, AssertUnwindSafe as A};

fn hdr(v: &str) -> String {
    format!(
        r#"<?xml version="1.0" encoding="utf-8"?>
<AUTOSAR xsi:schemaLocation="http://autosar.org/schema/r4.0 {v}" xmlns="http://autosar.org/schema/r4.0" xmlns:xsi="http://www.w3.org/2001/XMLSchema-instance">"#
    )
}

fn small_model() -> (AutosarModel, Element, Element, Element) {
    let m = AutosarModel::new();
    m.create_file("f", AutosarVersion::LATEST).unwrap();
    let pk = m.root_element().create_sub_element(ElementName::ArPackages).unwrap();
    let p = pk.create_named_sub_element(ElementName::ArPackage, "p").unwrap();
    let els = p.create_sub_element(ElementName::Elements).unwrap();
    let sys = els.create_named_sub_element(ElementName::System, "sys").unwrap();
    (m, pk, els, sys)
}

fn main() {
    let which = std::env::args().nth(1).unwrap();
    let h50 = hdr("AUTOSAR_00050.xsd");
    match which.as_str() {
        // C02/C12 #1-#3: three loader panics
        "lex" => {
            let blank = "<?xml version=\"1.0\" encoding=\"utf-8\"?><AUTOSAR xmlns=\" \">".to_string();
            for inp in ["<?>".to_string(), "<?xml version=?>".to_string(), blank] {
                for strict in [true, false] {
                    let r = catch_unwind(A(|| AutosarModel::new().load_buffer(inp.as_bytes(), "x", strict).is_ok()));
                    println!("{inp:?} strict={strict} -> {:?}", r.map_err(|_| "PANIC"));
                }
                let r = catch_unwind(A(|| check_buffer(inp.as_bytes())));
                println!("{inp:?} check_buffer -> {:?}", r.map_err(|_| "PANIC"));
            }
        }
        // C12 #5: self-deadlock (run under `timeout 5`; exit 124 = hang)
        "hang_remove" => {
            let (_m, pk, ..) = small_model();
            println!("calling remove_sub_element(self)");
            let r = pk.remove_sub_element(pk.clone());
            println!("returned {r:?}");
        }
        "hang_move" => {
            let (_m, pk, ..) = small_model();
            println!("calling move_element_here(self)");
            let r = pk.move_element_here(&pk);
            println!("returned {:?}", r.is_ok());
        }
        // C03/C04 #8: stale handle after remove_file edits the live index
        "stale" => {
            let m = AutosarModel::new();
            let f = m.create_file("f", AutosarVersion::LATEST).unwrap();
            let a = m.root_element().create_sub_element(ElementName::ArPackages).unwrap();
            m.remove_file(&f);
            println!("parent after remove_file: {:?}", a.parent().map(|p| p.map(|e| e.element_name())));
            let _f2 = m.create_file("g", AutosarVersion::LATEST).unwrap();
            let r = a.create_named_sub_element(ElementName::ArPackage, "x");
            println!(
                "create via stale: {:?}; lookup /x: {:?}; root children: {}",
                r.is_ok(),
                m.get_element_by_path("/x").is_some(),
                m.root_element().sub_elements().count()
            );
        }
        // C14 #13: comparator is not transitive, sort result depends on input order
        "sort" => {
            for perm in [["a2", "a10", "a1b"], ["a10", "a1b", "a2"], ["a1b", "a2", "a10"]] {
                let m = AutosarModel::new();
                m.create_file("f", AutosarVersion::LATEST).unwrap();
                let p = m.root_element().create_sub_element(ElementName::ArPackages).unwrap();
                for n in perm {
                    p.create_named_sub_element(ElementName::ArPackage, n).unwrap();
                }
                m.sort();
                let names: Vec<_> = p.sub_elements().map(|e| e.item_name().unwrap()).collect();
                println!("{perm:?} -> {names:?}");
            }
        }
        // C01 #7: Pattern values are escaped on write but not unescaped on load
        "amp" => {
            let txt = format!("{h50}<ADMIN-DATA><DOC-REVISIONS><DOC-REVISION><REVISION-LABEL>1.0.0;&amp;</REVISION-LABEL></DOC-REVISION></DOC-REVISIONS></ADMIN-DATA></AUTOSAR>");
            let m = AutosarModel::new();
            let (f, w) = m.load_buffer(txt.as_bytes(), "x", true).unwrap();
            println!("warnings {}", w.len());
            let s1 = f.serialize().unwrap();
            println!("{}", s1.lines().filter(|l| l.contains("REVISION-LABEL")).collect::<String>());
            let m2 = AutosarModel::new();
            let (f2, _) = m2.load_buffer(s1.as_bytes(), "x", true).unwrap();
            let s2 = f2.serialize().unwrap();
            println!("{}", s2.lines().filter(|l| l.contains("REVISION-LABEL")).collect::<String>());
        }
        // C04 #9: SHORT-NAME text set to a sibling's name
        "dupname" => {
            let (m, pk, ..) = small_model();
            let a = pk.create_named_sub_element(ElementName::ArPackage, "a").unwrap();
            let b = pk.create_named_sub_element(ElementName::ArPackage, "b").unwrap();
            let n0 = m.identifiable_elements().count();
            let r = b.get_sub_element(ElementName::ShortName).unwrap().set_character_data("a");
            println!(
                "{r:?} a.path={:?} b.path={:?} lookup==a {:?} idents {}->{}",
                a.path(),
                b.path(),
                m.get_element_by_path("/a") == Some(a.clone()),
                n0,
                m.identifiable_elements().count()
            );
        }
        // C05/C06 #10: rename onto a path that already has (dangling) referrers drops them from the map
        "reforig" => {
            let (m, _pk, els, sys) = small_model();
            let a = els.create_named_sub_element(ElementName::CanCluster, "a").unwrap();
            let fe = sys.create_sub_element(ElementName::FibexElements).unwrap();
            let mk = || {
                fe.create_sub_element(ElementName::FibexElementRefConditional)
                    .unwrap()
                    .create_sub_element(ElementName::FibexElementRef)
                    .unwrap()
            };
            let (r1, r2) = (mk(), mk());
            r1.set_reference_target(&a).unwrap();
            r2.set_attribute(AttributeName::Dest, EnumItem::CanCluster).unwrap();
            r2.set_character_data("/p/b").unwrap();
            println!("before: to /p/a {} to /p/b {}", m.get_references_to("/p/a").len(), m.get_references_to("/p/b").len());
            a.set_item_name("b").unwrap();
            println!(
                "after rename a->b: to /p/b {} ; r1={:?} r2={:?}",
                m.get_references_to("/p/b").len(),
                r1.character_data(),
                r2.character_data()
            );
        }
        // C19 #16: validate_regex_24 has no per-segment length limit ({0,127} in the regex)
        "regex24" => {
            let (_m, _pk, _els, sys) = small_model();
            let fe = sys.create_sub_element(ElementName::FibexElements).unwrap();
            let r1 = fe
                .create_sub_element(ElementName::FibexElementRefConditional)
                .unwrap()
                .create_sub_element(ElementName::FibexElementRef)
                .unwrap();
            println!("ref with 200-char segment accepted: {:?}", r1.set_character_data(format!("/{}", "a".repeat(200))).is_ok());
        }
        // C11 #12a: move of an identifiable element with empty SHORT-NAME fails AFTER unlinking it
        "emptysn" => {
            let txt = format!("{h50}<AR-PACKAGES><AR-PACKAGE><SHORT-NAME>p</SHORT-NAME><ELEMENTS><SYSTEM><SHORT-NAME></SHORT-NAME></SYSTEM></ELEMENTS></AR-PACKAGE><AR-PACKAGE><SHORT-NAME>q</SHORT-NAME><ELEMENTS/></AR-PACKAGE></AR-PACKAGES></AUTOSAR>");
            let m = AutosarModel::new();
            m.load_buffer(txt.as_bytes(), "x", false).unwrap();
            let pe = m.get_element_by_path("/p").unwrap().get_sub_element(ElementName::Elements).unwrap();
            let sys = pe.get_sub_element(ElementName::System).unwrap();
            let qe = m.get_element_by_path("/q").unwrap().get_or_create_sub_element(ElementName::Elements).unwrap();
            let n0 = m.elements_dfs().count();
            let r = qe.move_element_here(&sys);
            println!(
                "move: {:?}; elements {}->{}; children of /p ELEMENTS: {}",
                r.map(|_| ()).map_err(|e| e.to_string()),
                n0,
                m.elements_dfs().count(),
                pe.sub_elements().count()
            );
        }
        // C11 #12b: rejected second file leaves its elements merged into the tree
        "mergefail" => {
            let a = format!("{h50}<AR-PACKAGES><AR-PACKAGE><SHORT-NAME>p</SHORT-NAME><ELEMENTS><SYSTEM><SHORT-NAME>s</SHORT-NAME></SYSTEM></ELEMENTS></AR-PACKAGE></AR-PACKAGES></AUTOSAR>");
            let b = format!("{h50}<AR-PACKAGES><AR-PACKAGE><SHORT-NAME>p</SHORT-NAME><ELEMENTS><CAN-CLUSTER><SHORT-NAME>s</SHORT-NAME></CAN-CLUSTER></ELEMENTS></AR-PACKAGE><AR-PACKAGE><SHORT-NAME>q</SHORT-NAME></AR-PACKAGE></AR-PACKAGES></AUTOSAR>");
            let m = AutosarModel::new();
            m.load_buffer(a.as_bytes(), "a", true).unwrap();
            let n0 = m.elements_dfs().count();
            let r = m.load_buffer(b.as_bytes(), "b", true);
            println!("second load: {:?}", r.as_ref().map(|_| ()).map_err(|e| e.to_string()));
            println!("elements {}->{} files {}", n0, m.elements_dfs().count(), m.files().count());
        }
        // C17 #15: enum *content* value not checked by the compatibility walk
        "compat" => {
            let (old, newv) = (AutosarVersion::Autosar_4_2_2, AutosarVersion::Autosar_00050);
            let txt = format!("{h50}<AR-PACKAGES><AR-PACKAGE><SHORT-NAME>p</SHORT-NAME><ELEMENTS><BSW-MODULE-ENTRY><SHORT-NAME>e</SHORT-NAME><CALL-TYPE>CALLOUT</CALL-TYPE></BSW-MODULE-ENTRY></ELEMENTS></AR-PACKAGE></AR-PACKAGES></AUTOSAR>");
            let _ = newv;
            let m = AutosarModel::new();
            let (f, _) = m.load_buffer(txt.as_bytes(), "x", true).unwrap();
            let (errs, mask) = f.check_version_compatibility(old);
            println!("compat errs {} mask has 4.2.2: {}", errs.len(), mask & (old as u32) != 0);
            println!("set_version: {:?}", f.set_version(old).is_ok());
            let t = f.serialize().unwrap();
            println!("strict reload: {:?}", AutosarModel::new().load_buffer(t.as_bytes(), "y", true).map(|_| ()).map_err(|e| e.to_string()));
        }
        // C12 #6: unwrap in calc_element_insert_range after a lenient load of version-foreign content
        "range" => {
            let (old, newv) = (AutosarVersion::Autosar_4_2_2, AutosarVersion::Autosar_00050);
            let mut q = VecDeque::new();
            let mut seen = HashSet::new();
            q.push_back((ElementType::ROOT, Vec::<(ElementName, bool)>::new()));
            let mut tries = 0;
            while let Some((et, path)) = q.pop_front() {
                if !seen.insert(et) {
                    continue;
                }
                for (name, sub, mask, named_mask) in et.sub_element_spec_iter() {
                    let mut p = path.clone();
                    p.push((name, named_mask & (old as u32) != 0));
                    if et.content_mode() == ContentMode::Sequence
                        && mask & (old as u32) == 0
                        && mask & (newv as u32) != 0
                        && !path.is_empty()
                        && tries < 5
                    {
                        tries += 1;
                        let mut s = hdr("AUTOSAR_4-2-2.xsd");
                        let mut close = String::new();
                        for (i, (n, named)) in p.iter().enumerate() {
                            s += &format!("<{n}>");
                            if *named {
                                s += &format!("<SHORT-NAME>n{i}</SHORT-NAME>");
                            }
                            close = format!("</{n}>") + &close;
                        }
                        s += &close;
                        s += "</AUTOSAR>";
                        let m = AutosarModel::new();
                        if let Ok((_f, w)) = m.load_buffer(s.as_bytes(), "x", false) {
                            println!("loaded {} with {} warnings", p.iter().map(|x| x.0.to_string()).collect::<Vec<_>>().join("/"), w.len());
                            for (_, e) in m.elements_dfs() {
                                if catch_unwind(A(|| e.list_valid_sub_elements().len())).is_err() {
                                    println!("PANIC in list_valid_sub_elements on {}", e.element_name());
                                    return;
                                }
                            }
                        }
                    }
                    if mask & (old as u32) != 0 {
                        q.push_back((sub, p));
                    }
                }
            }
        }
        _ => println!("unknown case"),
    }
}

use autosar_data::*;
fn main() {
    let text = r#"<?xml version="1.0" encoding="utf-8"?>
<AUTOSAR xsi:schemaLocation="http://autosar.org/schema/r4.0 AUTOSAR_00050.xsd" xmlns="http://autosar.org/schema/r4.0" xmlns:xsi="http://www.w3.org/2001/XMLSchema-instance">
<AR-PACKAGES><AR-PACKAGE><SHORT-NAME>P</SHORT-NAME><CATEGORY>first</CATEGORY></AR-PACKAGE><AR-PACKAGE><SHORT-NAME>P</SHORT-NAME><CATEGORY>second</CATEGORY></AR-PACKAGE></AR-PACKAGES></AUTOSAR>"#;
    for strict in [true, false] {
        let model = AutosarModel::new();
        let r = model.load_buffer(text.as_bytes(), "a.arxml", strict);
        let n = model.elements_dfs().filter(|(_, e)| e.path().ok().as_deref() == Some("/P")).count();
        println!("strict={} load={:?} elements with path /P: {} index entries: {}", strict, r.map(|(_, w)| w.len()), n, model.identifiable_elements().count());
    }
}

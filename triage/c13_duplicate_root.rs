use autosar_data::*;
fn main() {
    let text = r#"<?xml version="1.0" encoding="utf-8"?>
<!--root comment-->
<AUTOSAR xsi:schemaLocation="http://autosar.org/schema/r4.0 AUTOSAR_00050.xsd" xmlns="http://autosar.org/schema/r4.0" xmlns:xsi="http://www.w3.org/2001/XMLSchema-instance" S="abc">
<AR-PACKAGES><AR-PACKAGE><SHORT-NAME>Pkg</SHORT-NAME></AR-PACKAGE></AR-PACKAGES></AUTOSAR>"#;
    let model = AutosarModel::new();
    let (f, _) = model.load_buffer(text.as_bytes(), "a.arxml", true).unwrap();
    let copy = model.duplicate().unwrap();
    let t1 = f.serialize().unwrap();
    let t2 = copy.files().next().unwrap().serialize().unwrap();
    println!("identical: {}", t1 == t2);
    for (a, b) in t1.lines().zip(t2.lines()) { if a != b { println!("orig: {a}\ncopy: {b}"); } }
    println!("orig lines {} copy lines {}", t1.lines().count(), t2.lines().count());
}

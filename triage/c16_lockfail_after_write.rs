use autosar_data::*;
use std::sync::{Arc, atomic::{AtomicBool, Ordering}};
fn main() {
    let model = AutosarModel::new();
    model.create_file("a.arxml", AutosarVersion::LATEST).unwrap();
    let pkgs = model.root_element().create_sub_element(ElementName::ArPackages).unwrap();
    for i in 0..3000 { pkgs.create_named_sub_element(ElementName::ArPackage, &format!("P{:05}", 3000 - i)).unwrap(); }
    let target = pkgs.create_named_sub_element(ElementName::ArPackage, "Target").unwrap();
    let sn = target.get_sub_element(ElementName::ShortName).unwrap();
    let stop = Arc::new(AtomicBool::new(false));
    let (p2, s2) = (pkgs.clone(), stop.clone());
    let b = std::thread::spawn(move || { while !s2.load(Ordering::Relaxed) { p2.sort(); } });
    let mut lockfail = 0; let mut dirty = 0; let mut ok = 0;
    let mut cur = "Target".to_string();
    for i in 0..20000 {
        let new = format!("T{}", i);
        match sn.set_character_data(new.clone()) {
            Ok(()) => { ok += 1; cur = new; }
            Err(AutosarDataError::ParentElementLocked) => {
                lockfail += 1;
                let now = sn.character_data().and_then(|c| c.string_value()).unwrap_or_default();
                if now != cur {
                    dirty += 1;
                    if dirty == 1 { println!("lock failure AFTER the write: SHORT-NAME text is {:?} (was {:?}); lookup of /{} -> {:?}, lookup of /{} -> {:?}", now, cur, now, model.get_element_by_path(&format!("/{}", now)).map(|e| e.element_name()), cur, model.get_element_by_path(&format!("/{}", cur)).map(|e| e.element_name())); }
                    cur = now;
                }
            }
            Err(e) => { println!("other error {e}"); }
        }
        if dirty >= 3 { break; }
    }
    stop.store(true, Ordering::Relaxed); b.join().unwrap();
    println!("ok={} lockfail={} failed-after-effect={}", ok, lockfail, dirty);
}

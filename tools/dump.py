#!/usr/bin/env python3
"""dump.py <facts-dir> <short name> : pretty-print a body's MIR facts (debug aid)."""
import sys, os
sys.path.insert(0, os.path.join(os.path.dirname(os.path.abspath(__file__)), '..', 'rules'))
import ir
def op(o):
    if 'l' in o:
        return ('move ' if o.get('mv') else '') + '_%d%s' % (o['l'], ''.join(o['p']))
    if 'fn' in o: return 'fn:' + (o.get('res') or o['fn'])
    return 'const ' + str(o.get('v'))
def rv(r):
    k = r['k']
    if k == 'use': return op(r['o'])
    if k == 'ref': return ('&mut ' if r['mut'] else '&') + op(r['pl'])
    if k == 'agg':
        if r.get('ak') == 'adt': return '%s::%s{%s}' % (r['adt'], r['var'], ', '.join('%s: %s' % (f, op(o)) for f, o in zip(r['fields'], r['ops'])))
        return '%s(%s)%s' % (r.get('ak'), ', '.join(op(o) for o in r['ops']), r.get('fn', ''))
    if k == 'bin': return '%s(%s, %s)' % (r['op'], op(r['a']), op(r['b']))
    if k == 'un': return '%s(%s)' % (r['op'], op(r['o']))
    if k == 'discr': return 'discriminant(%s)' % op(r['pl'])
    if k == 'cast': return '%s as %s [%s]' % (op(r['o']), r['ty'], r['ck'])
    return str(r)
P = ir.Program(sys.argv[1])
for b in P.by_short[sys.argv[2]]:
    print('fn', b.id, ' ret', b.ret, ' argc', b.argc)
    for i, l in enumerate(b.locals):
        print('   let _%d: %s  %s' % (i, l['ty'], b.names.get(i, '')))
    for blk in b.blocks:
        print(' bb%d%s:' % (blk['i'], ' (cleanup)' if blk['cleanup'] else ''))
        if blk['cleanup'] and len(sys.argv) < 4: 
            continue
        for s in blk['stmts']:
            if s['k'] == 'assign': print('    %s = %s      // L%d%s' % (op(s['dst']), rv(s['rv']), s['s']['l'], ' x:' + s['s']['x'] if 'x' in s['s'] else ''))
            elif s['k'] in ('live', 'dead'): pass
            else: print('   ', s)
        t = blk['term']; k = t['k']
        if k == 'call': print('    %s = %s(%s) -> bb%s unwind %s   // L%d' % (op(t['dst']), op(t['f']), ', '.join(op(a) for a in t['args']), t['t'], t['u'], t['s']['l']))
        elif k == 'switch': print('    switch %s %s else bb%d' % (op(t['d']), t['ts'], t['else']))
        elif k == 'drop': print('    drop %s -> bb%d' % (op(t['pl']), t['t']))
        elif k == 'assert': print('    assert %s == %s [%s] -> bb%d   // L%d' % (op(t['cond']), t['exp'], t['mk'], t['t'], t['s']['l']))
        elif k == 'goto': print('    goto bb%d' % t['t'])
        else: print('   ', k)

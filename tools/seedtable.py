#!/usr/bin/env python3
"""prints the markdown table of seeded changes from seeded/*/meta.json (used for DESIGN.md 11.3)"""
import json, os, re
V = os.path.dirname(os.path.dirname(os.path.abspath(__file__)))
rows = []
for d in sorted(os.listdir(os.path.join(V, 'seeded'))):
    mp = os.path.join(V, 'seeded', d, 'meta.json')
    if not os.path.exists(mp):
        continue
    m = json.load(open(mp))
    notes = os.path.join(V, 'seeded', d, 'notes.md')
    title = ''
    if os.path.exists(notes):
        first = open(notes).readline().strip().lstrip('# ')
        title = re.sub(r'^(C\d+ ?(seed|/)? ?\d* ?[-–:]* ?|Seed ?\d* ?[-–:]* ?|Seed C\d+ ?/ ?\d ?[-–:]* ?)', '', first, flags=re.I).strip(' -–:')
    own = m['property'] in m['caught_by']
    keys = []
    for c, ks in sorted(m['caught_by'].items()):
        k = ks[0] if ks else ''
        k = '|'.join(k.split('|')[:3])
        keys.append('%s (`%s`)' % (c, k[:70]))
    rows.append('| %s | %s | %s | %s |' % (d, title[:110], 'yes' if m['confirmed'] else '**no**', '; '.join(keys) if keys else '**missed**'))
print('| seed | change | confirmed | reported by (first key) |')
print('|---|---|---|---|')
print('\n'.join(rows))

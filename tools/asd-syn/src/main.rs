// asd-syn: syntax-level fact extractor (engine E2 of /verif/DESIGN.md).
// usage: asd-syn <out.json> <file.rs>...
// For every file it emits: enums (variants + explicit discriminants), statics/consts (literal value as JSON),
// macro_rules names, and every fn (free, impl, nested in mod) with its body as a JSON expression tree.
// Nothing is evaluated: the output is the source text's structure.
use proc_macro2::TokenStream;
use serde_json::{json, Map, Value};
use syn::parse::Parser;
use syn::punctuated::Punctuated;
use syn::spanned::Spanned;
use syn::*;

fn path_str(p: &Path) -> String {
    let mut s = String::new();
    if p.leading_colon.is_some() {
        s.push_str("::");
    }
    for (i, seg) in p.segments.iter().enumerate() {
        if i > 0 {
            s.push_str("::");
        }
        s.push_str(&seg.ident.to_string());
    }
    s
}

fn ts_str(ts: &TokenStream) -> String {
    ts.to_string()
}

fn ty_str(t: &Type) -> String {
    quote::quote!(#t).to_string().replace(' ', "")
}

fn line(sp: proc_macro2::Span) -> usize {
    sp.start().line
}

fn lit_json(l: &Lit) -> Value {
    match l {
        Lit::Int(i) => {
            let digits = i.base10_digits();
            let v: Value = match digits.parse::<u64>() {
                Ok(n) => json!(n),
                Err(_) => json!(digits),
            };
            json!({"k":"int","v":v,"suffix":i.suffix()})
        }
        Lit::Str(s) => json!({"k":"str","v":s.value()}),
        Lit::ByteStr(b) => json!({"k":"bstr","v":b.value()}),
        Lit::Byte(b) => json!({"k":"byte","v":b.value()}),
        Lit::Char(c) => json!({"k":"char","v":c.value().to_string()}),
        Lit::Bool(b) => json!({"k":"bool","v":b.value}),
        Lit::Float(f) => json!({"k":"float","v":f.base10_digits()}),
        Lit::CStr(_) => json!({"k":"cstr"}),
        _ => json!({"k":"lit?"}),
    }
}

fn pat_json(p: &Pat) -> Value {
    match p {
        Pat::Ident(i) => {
            json!({"k":"ident","name":i.ident.to_string(),"by_ref":i.by_ref.is_some(),"mut":i.mutability.is_some(),
                   "sub": i.subpat.as_ref().map(|(_, s)| pat_json(s))})
        }
        Pat::Wild(_) => json!({"k":"wild"}),
        Pat::Lit(l) => json!({"k":"lit","e":lit_json(&l.lit)}),
        Pat::Or(o) => json!({"k":"or","ps":o.cases.iter().map(pat_json).collect::<Vec<_>>()}),
        Pat::Tuple(t) => json!({"k":"tuple","ps":t.elems.iter().map(pat_json).collect::<Vec<_>>()}),
        Pat::TupleStruct(t) => {
            json!({"k":"tstruct","path":path_str(&t.path),"ps":t.elems.iter().map(pat_json).collect::<Vec<_>>()})
        }
        Pat::Struct(s) => {
            let mut m = Map::new();
            for f in &s.fields {
                let name = match &f.member {
                    Member::Named(i) => i.to_string(),
                    Member::Unnamed(i) => i.index.to_string(),
                };
                m.insert(name, pat_json(&f.pat));
            }
            json!({"k":"struct","path":path_str(&s.path),"fields":m,"rest":s.rest.is_some()})
        }
        Pat::Path(p) => json!({"k":"path","v":path_str(&p.path)}),
        Pat::Range(r) => json!({"k":"range",
            "from": r.start.as_ref().map(|e| expr_json(e)),
            "to": r.end.as_ref().map(|e| expr_json(e)),
            "incl": matches!(r.limits, RangeLimits::Closed(_))}),
        Pat::Reference(r) => json!({"k":"ref","p":pat_json(&r.pat)}),
        Pat::Slice(s) => json!({"k":"slice","ps":s.elems.iter().map(pat_json).collect::<Vec<_>>()}),
        Pat::Rest(_) => json!({"k":"rest"}),
        Pat::Paren(p) => pat_json(&p.pat),
        Pat::Type(t) => json!({"k":"typed","p":pat_json(&t.pat),"ty":ty_str(&t.ty)}),
        Pat::Const(c) => json!({"k":"const","e":block_json(&c.block)}),
        Pat::Macro(m) => json!({"k":"macro","name":path_str(&m.mac.path),"tokens":ts_str(&m.mac.tokens)}),
        other => json!({"k":"pat?","src":quote::quote!(#other).to_string()}),
    }
}

fn block_json(b: &Block) -> Value {
    let mut stmts = Vec::new();
    for s in &b.stmts {
        match s {
            Stmt::Local(l) => {
                let (init, els) = match &l.init {
                    Some(li) => (Some(expr_json(&li.expr)), li.diverge.as_ref().map(|(_, e)| expr_json(e))),
                    None => (None, None),
                };
                stmts.push(json!({"k":"local","pat":pat_json(&l.pat),"init":init,"else":els,"line":line(l.span())}));
            }
            Stmt::Item(Item::Const(c)) => {
                stmts.push(json!({"k":"const","name":c.ident.to_string(),"ty":ty_str(&c.ty),"e":expr_json(&c.expr)}));
            }
            Stmt::Item(Item::Static(c)) => {
                stmts.push(json!({"k":"static","name":c.ident.to_string(),"ty":ty_str(&c.ty),"e":expr_json(&c.expr)}));
            }
            Stmt::Item(it) => {
                stmts.push(json!({"k":"item","src":quote::quote!(#it).to_string().chars().take(200).collect::<String>()}));
            }
            Stmt::Expr(e, semi) => {
                stmts.push(json!({"k":"expr","e":expr_json(e),"semi":semi.is_some(),"line":line(e.span())}));
            }
            Stmt::Macro(m) => {
                stmts.push(json!({"k":"expr","e":macro_json(&m.mac),"semi":m.semi_token.is_some(),"line":line(m.span())}));
            }
        }
    }
    json!({"k":"block","stmts":stmts})
}

fn macro_json(m: &Macro) -> Value {
    let name = path_str(&m.path);
    let mut v = json!({"k":"macro","name":name,"tokens":ts_str(&m.tokens)});
    let parser = Punctuated::<Expr, Token![,]>::parse_terminated;
    if let Ok(args) = parser.parse2(m.tokens.clone()) {
        v["args"] = Value::Array(args.iter().map(expr_json).collect());
    }
    if name == "matches" {
        // matches!(expr, pat [if guard])
        let p = |input: parse::ParseStream| -> Result<(Expr, Pat, Option<Expr>)> {
            let e: Expr = input.parse()?;
            let _: Token![,] = input.parse()?;
            let pat = Pat::parse_multi_with_leading_vert(input)?;
            let guard = if input.peek(Token![if]) {
                let _: Token![if] = input.parse()?;
                Some(input.parse::<Expr>()?)
            } else {
                None
            };
            let _ = input.parse::<Option<Token![,]>>()?;
            Ok((e, pat, guard))
        };
        if let Ok((e, pat, guard)) = p.parse2(m.tokens.clone()) {
            v["matches"] = json!({"e":expr_json(&e),"pat":pat_json(&pat),"guard":guard.as_ref().map(expr_json)});
        }
    }
    v
}

fn member_str(m: &Member) -> String {
    match m {
        Member::Named(i) => i.to_string(),
        Member::Unnamed(i) => i.index.to_string(),
    }
}

fn expr_json(e: &Expr) -> Value {
    let mut v = expr_json_inner(e);
    if let Value::Object(m) = &mut v {
        if !m.contains_key("line") {
            m.insert("line".into(), json!(line(e.span())));
        }
    }
    v
}

fn expr_json_inner(e: &Expr) -> Value {
    match e {
        Expr::Lit(l) => lit_json(&l.lit),
        Expr::Path(p) => json!({"k":"path","v":path_str(&p.path)}),
        Expr::Unary(u) => {
            let op = match u.op {
                UnOp::Deref(_) => "*",
                UnOp::Not(_) => "!",
                UnOp::Neg(_) => "-",
                _ => "?",
            };
            json!({"k":"unary","op":op,"e":expr_json(&u.expr)})
        }
        Expr::Binary(b) => {
            let op = &b.op;
            json!({"k":"bin","op":quote::quote!(#op).to_string(),"l":expr_json(&b.left),"r":expr_json(&b.right)})
        }
        Expr::MethodCall(m) => json!({"k":"mcall","recv":expr_json(&m.receiver),"m":m.method.to_string(),
            "args":m.args.iter().map(expr_json).collect::<Vec<_>>(),
            "turbofish": m.turbofish.as_ref().map(|t| quote::quote!(#t).to_string())}),
        Expr::Call(c) => json!({"k":"call","f":expr_json(&c.func),"args":c.args.iter().map(expr_json).collect::<Vec<_>>()}),
        Expr::Index(i) => json!({"k":"index","e":expr_json(&i.expr),"i":expr_json(&i.index)}),
        Expr::Range(r) => json!({"k":"range","from":r.start.as_ref().map(|e| expr_json(e)),
            "to":r.end.as_ref().map(|e| expr_json(e)),"incl":matches!(r.limits, RangeLimits::Closed(_))}),
        Expr::Field(f) => json!({"k":"field","e":expr_json(&f.base),"f":member_str(&f.member)}),
        Expr::Reference(r) => json!({"k":"ref","mut":r.mutability.is_some(),"e":expr_json(&r.expr)}),
        Expr::Paren(p) => expr_json(&p.expr),
        Expr::Group(g) => expr_json(&g.expr),
        Expr::Tuple(t) => json!({"k":"tuple","es":t.elems.iter().map(expr_json).collect::<Vec<_>>()}),
        Expr::Array(a) => json!({"k":"array","es":a.elems.iter().map(expr_json).collect::<Vec<_>>()}),
        Expr::Repeat(r) => json!({"k":"repeat","e":expr_json(&r.expr),"n":expr_json(&r.len)}),
        Expr::Struct(s) => {
            let mut m = Map::new();
            for f in &s.fields {
                m.insert(member_str(&f.member), expr_json(&f.expr));
            }
            json!({"k":"struct","path":path_str(&s.path),"fields":m,"rest":s.rest.as_ref().map(|e| expr_json(e))})
        }
        Expr::If(i) => json!({"k":"if","c":expr_json(&i.cond),"t":block_json(&i.then_branch),
            "e":i.else_branch.as_ref().map(|(_, e)| expr_json(e))}),
        Expr::Let(l) => json!({"k":"let","pat":pat_json(&l.pat),"e":expr_json(&l.expr)}),
        Expr::Block(b) => block_json(&b.block),
        Expr::Unsafe(u) => json!({"k":"unsafe","b":block_json(&u.block)}),
        Expr::Match(m) => json!({"k":"match","e":expr_json(&m.expr),"arms":m.arms.iter().map(|a| {
            json!({"pat":pat_json(&a.pat),"guard":a.guard.as_ref().map(|(_, g)| expr_json(g)),"body":expr_json(&a.body)})
        }).collect::<Vec<_>>()}),
        Expr::Closure(c) => json!({"k":"closure","params":c.inputs.iter().map(pat_json).collect::<Vec<_>>(),"body":expr_json(&c.body)}),
        Expr::Return(r) => json!({"k":"return","e":r.expr.as_ref().map(|e| expr_json(e))}),
        Expr::Break(b) => json!({"k":"break","e":b.expr.as_ref().map(|e| expr_json(e))}),
        Expr::Continue(_) => json!({"k":"continue"}),
        Expr::While(w) => json!({"k":"while","c":expr_json(&w.cond),"body":block_json(&w.body)}),
        Expr::Loop(l) => json!({"k":"loop","body":block_json(&l.body)}),
        Expr::ForLoop(f) => json!({"k":"for","pat":pat_json(&f.pat),"e":expr_json(&f.expr),"body":block_json(&f.body)}),
        Expr::Assign(a) => json!({"k":"assign","l":expr_json(&a.left),"r":expr_json(&a.right)}),
        Expr::Macro(m) => macro_json(&m.mac),
        Expr::Cast(c) => json!({"k":"cast","e":expr_json(&c.expr),"ty":ty_str(&c.ty)}),
        Expr::Try(t) => json!({"k":"try","e":expr_json(&t.expr)}),
        other => json!({"k":"expr?","src":quote::quote!(#other).to_string().chars().take(300).collect::<String>()}),
    }
}

fn fn_json(sig: &Signature, vis: &Visibility, block: &Block, owner: &str, attrs: &[Attribute]) -> Value {
    let params: Vec<Value> = sig
        .inputs
        .iter()
        .map(|a| match a {
            FnArg::Receiver(r) => json!({"self":true,"ref":r.reference.is_some(),"mut":r.mutability.is_some()}),
            FnArg::Typed(t) => json!({"pat":pat_json(&t.pat),"ty":ty_str(&t.ty)}),
        })
        .collect();
    let ret = match &sig.output {
        ReturnType::Default => "()".to_string(),
        ReturnType::Type(_, t) => ty_str(t),
    };
    json!({"name":sig.ident.to_string(),"owner":owner,"pub":matches!(vis, Visibility::Public(_)),
           "const":sig.constness.is_some(),"unsafe":sig.unsafety.is_some(),
           "cfg": cfg_attrs(attrs),
           "params":params,"ret":ret,"line":line(sig.ident.span()),"body":block_json(block)})
}

fn cfg_attrs(attrs: &[Attribute]) -> Vec<String> {
    attrs
        .iter()
        .filter(|a| a.path().is_ident("cfg"))
        .map(|a| quote::quote!(#a).to_string())
        .collect()
}

fn is_cfg_test(attrs: &[Attribute]) -> bool {
    cfg_attrs(attrs).iter().any(|s| s.replace(' ', "").contains("cfg(test)"))
}

fn walk_items(items: &[Item], modpath: &str, out: &mut Map<String, Value>) {
    for it in items {
        match it {
            Item::Enum(e) => {
                let vars: Vec<Value> = e
                    .variants
                    .iter()
                    .map(|v| {
                        let fields: Vec<String> = match &v.fields {
                            Fields::Named(n) => n.named.iter().map(|f| f.ident.as_ref().unwrap().to_string()).collect(),
                            Fields::Unnamed(u) => (0..u.unnamed.len()).map(|i| i.to_string()).collect(),
                            Fields::Unit => vec![],
                        };
                        json!({"name":v.ident.to_string(),"discr":v.discriminant.as_ref().map(|(_, e)| expr_json(e)),"fields":fields})
                    })
                    .collect();
                let attrs: Vec<String> = e.attrs.iter().map(|a| quote::quote!(#a).to_string()).filter(|s| !s.contains("doc")).collect();
                out["enums"].as_array_mut().unwrap().push(json!({"name":e.ident.to_string(),"mod":modpath,"attrs":attrs,"variants":vars,"line":line(e.ident.span())}));
            }
            Item::Struct(s) => {
                let fields: Vec<Value> = s
                    .fields
                    .iter()
                    .enumerate()
                    .map(|(i, f)| json!({"name":f.ident.as_ref().map(|x| x.to_string()).unwrap_or(i.to_string()),"ty":ty_str(&f.ty),"cfg":cfg_attrs(&f.attrs)}))
                    .collect();
                out["structs"].as_array_mut().unwrap().push(json!({"name":s.ident.to_string(),"mod":modpath,"fields":fields}));
            }
            Item::Static(s) => {
                out["statics"].as_array_mut().unwrap().push(json!({"name":s.ident.to_string(),"mod":modpath,"ty":ty_str(&s.ty),
                    "cfg":cfg_attrs(&s.attrs),"kind":"static","line":line(s.ident.span()),"e":expr_json(&s.expr)}));
            }
            Item::Const(c) => {
                out["statics"].as_array_mut().unwrap().push(json!({"name":c.ident.to_string(),"mod":modpath,"ty":ty_str(&c.ty),
                    "cfg":cfg_attrs(&c.attrs),"kind":"const","line":line(c.ident.span()),"e":expr_json(&c.expr)}));
            }
            Item::Fn(f) => {
                if is_cfg_test(&f.attrs) {
                    continue;
                }
                let mut v = fn_json(&f.sig, &f.vis, &f.block, "", &f.attrs);
                v["mod"] = json!(modpath);
                out["fns"].as_array_mut().unwrap().push(v);
            }
            Item::Impl(im) => {
                let st = ty_str(&im.self_ty);
                let tr = im.trait_.as_ref().map(|(_, p, _)| path_str(p));
                let owner = match &tr {
                    Some(t) => format!("<{} as {}>", st, t),
                    None => st.clone(),
                };
                for ii in &im.items {
                    match ii {
                        ImplItem::Fn(f) => {
                            if is_cfg_test(&f.attrs) {
                                continue;
                            }
                            let mut v = fn_json(&f.sig, &f.vis, &f.block, &owner, &f.attrs);
                            v["mod"] = json!(modpath);
                            out["fns"].as_array_mut().unwrap().push(v);
                        }
                        ImplItem::Const(c) => {
                            out["statics"].as_array_mut().unwrap().push(json!({"name":format!("{}::{}", st, c.ident),"mod":modpath,"ty":ty_str(&c.ty),
                                "cfg":cfg_attrs(&c.attrs),"kind":"assoc_const","line":line(c.ident.span()),"e":expr_json(&c.expr)}));
                        }
                        _ => {}
                    }
                }
            }
            Item::Mod(m) => {
                if is_cfg_test(&m.attrs) {
                    continue;
                }
                if let Some((_, items)) = &m.content {
                    let mp = if modpath.is_empty() { m.ident.to_string() } else { format!("{}::{}", modpath, m.ident) };
                    walk_items(items, &mp, out);
                }
            }
            Item::Macro(m) => {
                if let Some(id) = &m.ident {
                    out["macros"].as_array_mut().unwrap().push(json!({"name":id.to_string(),"cfg":cfg_attrs(&m.attrs),"tokens":ts_str(&m.mac.tokens)}));
                }
            }
            _ => {}
        }
    }
}

fn main() {
    let args: Vec<String> = std::env::args().collect();
    if args.len() < 3 {
        eprintln!("usage: asd-syn <out.json> <file.rs>...");
        std::process::exit(3);
    }
    let mut files = Map::new();
    for f in &args[2..] {
        let src = std::fs::read_to_string(f).unwrap_or_else(|e| {
            eprintln!("asd-syn: cannot read {}: {}", f, e);
            std::process::exit(2)
        });
        let ast = syn::parse_file(&src).unwrap_or_else(|e| {
            eprintln!("asd-syn: cannot parse {}: {}", f, e);
            std::process::exit(2)
        });
        let mut out = Map::new();
        for k in ["enums", "structs", "statics", "fns", "macros"] {
            out.insert(k.to_string(), json!([]));
        }
        walk_items(&ast.items, "", &mut out);
        files.insert(f.clone(), Value::Object(out));
    }
    let doc = json!({"files": files});
    std::fs::write(&args[1], serde_json::to_string(&doc).unwrap()).expect("asd-syn: cannot write output");
}

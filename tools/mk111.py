#!/usr/bin/env python3
"""mk111.py - regenerate the table of DESIGN.md §11.1 (between <!-- t111:begin --> and <!-- t111:end -->) from the evidence files."""
import json, glob, os, re
V = os.path.dirname(os.path.dirname(os.path.abspath(__file__)))
man = {c['property_id']: c for c in json.load(open(os.path.join(V, 'MANIFEST.json')))['checks']}
kf = json.load(open(os.path.join(V, 'known_findings.json')))
rows = ['| id | level | rules as built | obligations on the current tree |', '|---|---|---|---|']
for p in sorted(glob.glob(os.path.join(V, 'evidence', 'C??.json'))):
    e = json.load(open(p)); c = e.get('coverage', {})
    pid = e.get('property_id')
    rules = []
    for r in c.get('rule', '').split(' || '):
        rid = r.split(':')[0].strip()
        if re.match(r'^C\d+-[A-Za-z]+', rid) and rid not in rules:
            rules.append(rid)
    nk = sum(1 for f in kf['findings'] if (f.get('property') == pid or str(f.get('key', '')).startswith(pid + '-')))
    rows.append('| %s | %s | %s | %s%s |' % (pid, man[pid].get('level', man[pid].get('verification_level', e.get('level'))), ', '.join(x.replace(pid + '-', '') for x in rules), c.get('obligations'), (', %d known' % nk) if nk else ''))
s = open(os.path.join(V, 'DESIGN.md')).read()
a, b = '<!-- t111:begin -->', '<!-- t111:end -->'
s = s[:s.index(a) + len(a)] + '\n' + '\n'.join(rows) + '\n' + s[s.index(b):]
open(os.path.join(V, 'DESIGN.md'), 'w').write(s)
print('\n'.join(rows))

#!/usr/bin/env python3
"""regenerate tables/c15_up_edges.json: the functions that hold an Element lock while awaiting the Model/File lock (run after a REVIEWED change)"""
import sys, os, json, subprocess
V = os.path.dirname(os.path.dirname(os.path.abspath(__file__)))
ev = '/tmp/asd-upedges.%d' % os.getpid()
os.makedirs(ev, exist_ok=True)
p = os.path.join(V, 'tables', 'c15_up_edges.json')
if not os.path.exists(p):
    json.dump({'functions': []}, open(p, 'w'))
subprocess.run([os.path.join(V, 'check'), 'C15'], env=dict(os.environ, ASD_EVIDENCE_DIR=ev), stdout=subprocess.DEVNULL, stderr=subprocess.DEVNULL)
d = json.load(open(os.path.join(ev, 'C15.json')))
def find(o):
    if isinstance(o, dict):
        if 'element_then_model_functions' in o:
            return o['element_then_model_functions']
        for v in o.values():
            r = find(v)
            if r is not None:
                return r
    return None
fns = find(d)
json.dump({'comment': 'functions that await the Model/File lock (blocking) with an Element lock held, on the reviewed tree; see rules/c15.py C15-CYCLE', 'functions': fns}, open(p, 'w'), indent=1)
print(len(fns), 'functions')
import shutil; shutil.rmtree(ev)

#!/bin/bash
# usage: extract.sh <outdir> [config]   config: dev (default) | release | docstrings
# Runs the asd-mir driver over /repo's current working tree into <outdir>; fresh target dir, removed afterwards.
set -euo pipefail
OUT="$1"; CFG="${2:-dev}"
REPO="${ASD_REPO:-/repo}"
DRV=/verif/tools/asd-mir/target/debug/asd-mir
[ -x "$DRV" ] || { echo "asd-mir driver not built (run setup)" >&2; exit 3; }
mkdir -p "$OUT"
T=$(mktemp -d /tmp/asd-target.XXXXXX)
trap 'rm -rf "$T"' EXIT
SYSROOT=$(rustc +nightly --print sysroot)
FLAGS="-Zmir-opt-level=0 -Awarnings"
EXTRA=""
case "$CFG" in
  dev) ;;
  release) FLAGS="$FLAGS -C overflow-checks=off -C debug-assertions=off" ;;
  docstrings) EXTRA="--features autosar-data-specification/docstrings" ;;
  *) echo "unknown config $CFG" >&2; exit 3 ;;
esac
cd "$REPO"
rm -f "$OUT"/mir-*.json
if ! LD_LIBRARY_PATH="$SYSROOT/lib" CARGO_NET_OFFLINE=true RUSTFLAGS="$FLAGS" RUSTC_WORKSPACE_WRAPPER="$DRV" \
   ASD_CRATES=autosar_data,autosar_data_specification ASD_FACTS_DIR="$OUT" CARGO_TARGET_DIR="$T" \
   cargo +nightly check --offline --lib -p autosar-data -p autosar-data-specification $EXTRA >"$OUT/cargo.log" 2>&1; then
  echo "extract: cargo check failed; see $OUT/cargo.log" >&2
  tail -30 "$OUT/cargo.log" >&2
  exit 2
fi
for c in autosar_data autosar_data_specification; do
  [ -s "$OUT/mir-$c.json" ] || { echo "extract: fact file for $c was not written" >&2; exit 2; }
done

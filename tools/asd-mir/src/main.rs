// asd-mir: MIR fact extractor for the autosar-data workspace (engine E1 of /verif/DESIGN.md).
//
// Invoked by cargo as RUSTC_WORKSPACE_WRAPPER:  asd-mir <rustc> <rustc args...>
// For the crates named in ASD_CRATES (comma separated crate names) it runs the normal
// compilation pipeline up to analysis, then walks the MIR of every fn / assoc fn / closure
// and writes ONE json document  $ASD_FACTS_DIR/mir-<crate>.json  (one write per process).
// It never evaluates a body; constants are rendered by the compiler's own printer.
#![feature(rustc_private)]

extern crate rustc_abi;
extern crate rustc_driver;
extern crate rustc_hir;
extern crate rustc_interface;
extern crate rustc_middle;
extern crate rustc_session;
extern crate rustc_span;

use rustc_driver::{Callbacks, Compilation};
use rustc_hir::def::DefKind;
use rustc_hir::def_id::{DefId, LocalDefId};
use rustc_interface::interface::Compiler;
use rustc_middle::mir::{
    AggregateKind, AssertKind, BasicBlock, Body, BorrowKind, Const, Operand, PlaceRef, ProjectionElem, Rvalue,
    StatementKind, TerminatorKind, UnwindAction,
};
use rustc_middle::ty::print::with_no_trimmed_paths;
use rustc_middle::ty::{self, Instance, Ty, TyCtxt, TypingEnv};
use rustc_span::Span;
use std::fmt::Write as _;

fn esc(s: &str) -> String {
    let mut o = String::with_capacity(s.len() + 2);
    o.push('"');
    for c in s.chars() {
        match c {
            '"' => o.push_str("\\\""),
            '\\' => o.push_str("\\\\"),
            '\n' => o.push_str("\\n"),
            '\r' => o.push_str("\\r"),
            '\t' => o.push_str("\\t"),
            c if (c as u32) < 0x20 => {
                let _ = write!(o, "\\u{:04x}", c as u32);
            }
            c => o.push(c),
        }
    }
    o.push('"');
    o
}

struct Ex<'tcx> {
    tcx: TyCtxt<'tcx>,
    krate: String,
}

impl<'tcx> Ex<'tcx> {
    fn path(&self, did: DefId) -> String {
        let p = with_no_trimmed_paths!(self.tcx.def_path_str(did));
        if did.is_local() { format!("{}::{}", self.krate, p) } else { p }
    }
    fn ty(&self, t: Ty<'tcx>) -> String {
        with_no_trimmed_paths!(t.to_string())
    }
    fn span(&self, sp: Span) -> String {
        let sm = self.tcx.sess.source_map();
        let mut out = String::new();
        let real = if sp.from_expansion() { sp.source_callsite() } else { sp };
        let lo = sm.lookup_char_pos(real.lo());
        let fname = format!("{}", lo.file.name.prefer_local_unconditionally());
        let _ = write!(out, "{{\"f\":{},\"l\":{},\"c\":{}", esc(&fname), lo.line, lo.col.0 + 1);
        if sp.from_expansion() {
            let ed = sp.ctxt().outer_expn_data();
            let _ = write!(out, ",\"x\":{}", esc(&format!("{}", ed.kind.descr())));
        }
        out.push('}');
        out
    }

    fn place(&self, body: &Body<'tcx>, p: PlaceRef<'tcx>) -> String {
        let mut out = String::new();
        let _ = write!(out, "{{\"l\":{},\"p\":[", p.local.as_usize());
        for (i, (base, elem)) in p.iter_projections().enumerate() {
            if i > 0 {
                out.push(',');
            }
            let s = match elem {
                ProjectionElem::Deref => "*".to_string(),
                ProjectionElem::Field(f, _) => {
                    let bt = base.ty(&body.local_decls, self.tcx);
                    match bt.ty.kind() {
                        ty::Adt(adt, _) => {
                            let v = bt.variant_index.unwrap_or(rustc_abi::FIRST_VARIANT);
                            let vd = adt.variant(v);
                            let fname = vd.fields[f].name.to_string();
                            format!(".{}.{}", self.tcx.item_name(adt.did()), fname)
                        }
                        ty::Closure(..) => format!(".{{closure}}.{}", f.as_usize()),
                        _ => format!(".{}", f.as_usize()),
                    }
                }
                ProjectionElem::Index(l) => format!("[_{}]", l.as_usize()),
                ProjectionElem::ConstantIndex { offset, from_end, .. } => {
                    if from_end { format!("[-{}]", offset) } else { format!("[{}]", offset) }
                }
                ProjectionElem::Subslice { from, to, from_end } => {
                    if from_end { format!("[{}..-{}]", from, to) } else { format!("[{}..{}]", from, to) }
                }
                ProjectionElem::Downcast(name, v) => match name {
                    Some(n) => format!("as {}", n),
                    None => format!("as #{}", v.as_usize()),
                },
                ProjectionElem::OpaqueCast(_) => "opaque".to_string(),
                ProjectionElem::UnwrapUnsafeBinder(_) => "unbinder".to_string(),
            };
            out.push_str(&esc(&s));
        }
        out.push_str("]}");
        out
    }

    fn constant(&self, owner: DefId, c: &Const<'tcx>) -> String {
        let t = c.ty();
        let mut out = String::new();
        let _ = write!(out, "{{\"c\":{}", esc(&self.ty(t)));
        match t.kind() {
            ty::FnDef(did, args) => {
                let _ = write!(out, ",\"fn\":{}", esc(&self.path(*did)));
                let _ = write!(out, ",\"substs\":[");
                for (i, a) in args.iter().enumerate() {
                    if i > 0 {
                        out.push(',');
                    }
                    out.push_str(&esc(&with_no_trimmed_paths!(a.to_string())));
                }
                out.push(']');
                let env = TypingEnv::post_analysis(self.tcx, owner);
                if let Ok(Some(inst)) = Instance::try_resolve(self.tcx, env, *did, args) {
                    let _ = write!(out, ",\"res\":{}", esc(&self.path(inst.def_id())));
                }
            }
            _ => {
                let env = TypingEnv::post_analysis(self.tcx, owner);
                if t.is_integral() || t.is_bool() || t.is_char() {
                    if let Some(si) = c.try_eval_scalar_int(self.tcx, env) {
                        let bits = si.to_bits_unchecked();
                        let _ = write!(out, ",\"i\":\"{}\"", bits);
                    }
                }
                if t.is_any_ptr() {
                    if let Some(rustc_middle::mir::interpret::Scalar::Ptr(ptr, _)) = c.try_eval_scalar(self.tcx, env) {
                        let aid = ptr.provenance.alloc_id();
                        if let Some(rustc_middle::mir::interpret::GlobalAlloc::Static(sd)) = self.tcx.try_get_global_alloc(aid) {
                            let _ = write!(out, ",\"static\":{}", esc(&self.path(sd)));
                        }
                    }
                }
                let v = with_no_trimmed_paths!(format!("{}", c));
                let v = if v.len() > 400 { format!("{}…", &v.chars().take(400).collect::<String>()) } else { v };
                let _ = write!(out, ",\"v\":{}", esc(&v));
            }
        }
        out.push('}');
        out
    }

    fn operand(&self, owner: DefId, body: &Body<'tcx>, o: &Operand<'tcx>) -> String {
        match o {
            Operand::Copy(p) => self.place(body, p.as_ref()),
            Operand::Move(p) => {
                let s = self.place(body, p.as_ref());
                format!("{},\"mv\":true}}", &s[..s.len() - 1])
            }
            Operand::Constant(c) => self.constant(owner, &c.const_),
            #[allow(unreachable_patterns)]
            _ => "{\"c\":\"?\",\"v\":\"runtime-checks\"}".to_string(),
        }
    }

    fn rvalue(&self, owner: DefId, body: &Body<'tcx>, rv: &Rvalue<'tcx>) -> String {
        let op = |o: &Operand<'tcx>| self.operand(owner, body, o);
        match rv {
            Rvalue::Use(o, ..) => format!("{{\"k\":\"use\",\"o\":{}}}", op(o)),
            Rvalue::Repeat(o, _) => format!("{{\"k\":\"repeat\",\"o\":{}}}", op(o)),
            Rvalue::Ref(_, bk, p) => {
                let m = matches!(bk, BorrowKind::Mut { .. });
                format!("{{\"k\":\"ref\",\"mut\":{},\"pl\":{}}}", m, self.place(body, p.as_ref()))
            }
            Rvalue::ThreadLocalRef(d) => format!("{{\"k\":\"tls\",\"d\":{}}}", esc(&self.path(*d))),
            Rvalue::RawPtr(k, p) => {
                format!("{{\"k\":\"rawptr\",\"mut\":{},\"pl\":{}}}", matches!(k, rustc_middle::mir::RawPtrKind::Mut), self.place(body, p.as_ref()))
            }
            Rvalue::Cast(k, o, t) => {
                format!("{{\"k\":\"cast\",\"ck\":{},\"o\":{},\"ty\":{}}}", esc(&format!("{:?}", k)), op(o), esc(&self.ty(*t)))
            }
            Rvalue::BinaryOp(b, ops) => {
                format!("{{\"k\":\"bin\",\"op\":{},\"a\":{},\"b\":{}}}", esc(&format!("{:?}", b)), op(&ops.0), op(&ops.1))
            }
            Rvalue::UnaryOp(u, o) => format!("{{\"k\":\"un\",\"op\":{},\"o\":{}}}", esc(&format!("{:?}", u)), op(o)),
            Rvalue::Discriminant(p) => format!("{{\"k\":\"discr\",\"pl\":{}}}", self.place(body, p.as_ref())),
            Rvalue::Aggregate(ak, ops) => {
                let mut out = String::from("{\"k\":\"agg\"");
                match &**ak {
                    AggregateKind::Array(_) => out.push_str(",\"ak\":\"array\""),
                    AggregateKind::Tuple => out.push_str(",\"ak\":\"tuple\""),
                    AggregateKind::Adt(did, vidx, _, _, _) => {
                        let adt = self.tcx.adt_def(*did);
                        let v = adt.variant(*vidx);
                        let _ = write!(
                            out,
                            ",\"ak\":\"adt\",\"adt\":{},\"var\":{},\"fields\":[",
                            esc(&self.tcx.item_name(*did).to_string()),
                            esc(&v.name.to_string())
                        );
                        for (i, f) in v.fields.iter().enumerate() {
                            if i > 0 {
                                out.push(',');
                            }
                            out.push_str(&esc(&f.name.to_string()));
                        }
                        out.push(']');
                    }
                    AggregateKind::Closure(did, _) => {
                        let _ = write!(out, ",\"ak\":\"closure\",\"fn\":{}", esc(&self.path(*did)));
                    }
                    AggregateKind::Coroutine(did, _) | AggregateKind::CoroutineClosure(did, _) => {
                        let _ = write!(out, ",\"ak\":\"coroutine\",\"fn\":{}", esc(&self.path(*did)));
                    }
                    AggregateKind::RawPtr(..) => out.push_str(",\"ak\":\"rawptr\""),
                }
                out.push_str(",\"ops\":[");
                for (i, o) in ops.iter().enumerate() {
                    if i > 0 {
                        out.push(',');
                    }
                    out.push_str(&op(o));
                }
                out.push_str("]}");
                out
            }
            Rvalue::CopyForDeref(p) => format!("{{\"k\":\"use\",\"o\":{}}}", self.place(body, p.as_ref())),
            Rvalue::WrapUnsafeBinder(o, _) => format!("{{\"k\":\"use\",\"o\":{}}}", op(o)),
        }
    }

    fn unwind(&self, u: &UnwindAction) -> String {
        match u {
            UnwindAction::Continue => "\"continue\"".into(),
            UnwindAction::Unreachable => "\"unreachable\"".into(),
            UnwindAction::Terminate(_) => "\"terminate\"".into(),
            UnwindAction::Cleanup(bb) => format!("{}", bb.as_usize()),
        }
    }

    fn body(&self, ldid: LocalDefId, out: &mut String) {
        let tcx = self.tcx;
        let did = ldid.to_def_id();
        let kind = tcx.def_kind(did);
        let body: &Body<'tcx> = tcx.optimized_mir(did);
        let _ = write!(out, "{{\"id\":{},\"kind\":{}", esc(&self.path(did)), esc(&format!("{:?}", kind)));
        let _ = write!(out, ",\"span\":{}", self.span(tcx.def_span(did)));
        let mut is_pub = false;
        let mut reachable = false;
        if matches!(kind, DefKind::Fn | DefKind::AssocFn) {
            is_pub = tcx.visibility(did).is_public();
            reachable = tcx.effective_visibilities(()).is_reachable(ldid);
        }
        let _ = write!(out, ",\"pub\":{},\"reachable\":{}", is_pub, reachable);
        // parent item (for closures: enclosing fn; for assoc fns: the impl)
        let parent = tcx.parent(did);
        let _ = write!(out, ",\"parent\":{}", esc(&self.path(parent)));
        if kind == DefKind::AssocFn {
            if let DefKind::Impl { of_trait } = tcx.def_kind(parent) {
                let st = tcx.type_of(parent).instantiate_identity().skip_norm_wip();
                let _ = write!(out, ",\"self_ty\":{}", esc(&self.ty(st)));
                if of_trait {
                    let tr = tcx.impl_trait_ref(parent).instantiate_identity().skip_norm_wip();
                    let _ = write!(out, ",\"trait\":{}", esc(&with_no_trimmed_paths!(self.path(tr.def_id))));
                }
            }
        }
        let _ = write!(out, ",\"argc\":{}", body.arg_count);
        let _ = write!(out, ",\"ret\":{}", esc(&self.ty(body.local_decls[rustc_middle::mir::RETURN_PLACE].ty)));
        // locals
        out.push_str(",\"locals\":[");
        for (i, ld) in body.local_decls.iter().enumerate() {
            if i > 0 {
                out.push(',');
            }
            let _ = write!(out, "{{\"ty\":{}", esc(&self.ty(ld.ty)));
            out.push('}');
        }
        out.push_str("],\"debug\":[");
        let mut first = true;
        for vdi in &body.var_debug_info {
            if let rustc_middle::mir::VarDebugInfoContents::Place(p) = &vdi.value {
                if !first {
                    out.push(',');
                }
                first = false;
                let _ = write!(out, "{{\"n\":{},\"pl\":{}}}", esc(&vdi.name.to_string()), self.place(body, p.as_ref()));
            }
        }
        out.push_str("],\"blocks\":[");
        for (bi, bb) in body.basic_blocks.iter_enumerated() {
            if bi.as_usize() > 0 {
                out.push(',');
            }
            let _ = write!(out, "{{\"i\":{},\"cleanup\":{},\"stmts\":[", bi.as_usize(), bb.is_cleanup);
            let mut firsts = true;
            for st in &bb.statements {
                let s = match &st.kind {
                    StatementKind::Assign(b) => {
                        let (p, rv) = &**b;
                        Some(format!(
                            "{{\"k\":\"assign\",\"dst\":{},\"rv\":{},\"s\":{}}}",
                            self.place(body, p.as_ref()),
                            self.rvalue(did, body, rv),
                            self.span(st.source_info.span)
                        ))
                    }
                    StatementKind::SetDiscriminant { place, variant_index } => Some(format!(
                        "{{\"k\":\"setdiscr\",\"dst\":{},\"var\":{},\"s\":{}}}",
                        self.place(body, place.as_ref().as_ref()),
                        variant_index.as_usize(),
                        self.span(st.source_info.span)
                    )),
                    StatementKind::StorageDead(l) => Some(format!("{{\"k\":\"dead\",\"l\":{}}}", l.as_usize())),
                    StatementKind::StorageLive(l) => Some(format!("{{\"k\":\"live\",\"l\":{}}}", l.as_usize())),
                    StatementKind::Intrinsic(i) => Some(format!(
                        "{{\"k\":\"intrinsic\",\"v\":{},\"s\":{}}}",
                        esc(&format!("{:?}", i)),
                        self.span(st.source_info.span)
                    )),
                    _ => None,
                };
                if let Some(s) = s {
                    if !firsts {
                        out.push(',');
                    }
                    firsts = false;
                    out.push_str(&s);
                }
            }
            out.push_str("],\"term\":");
            let term = bb.terminator();
            let tsp = self.span(term.source_info.span);
            let op = |o: &Operand<'tcx>| self.operand(did, body, o);
            let bbn = |b: &BasicBlock| b.as_usize();
            match &term.kind {
                TerminatorKind::Goto { target } => {
                    let _ = write!(out, "{{\"k\":\"goto\",\"t\":{}}}", bbn(target));
                }
                TerminatorKind::SwitchInt { discr, targets } => {
                    let _ = write!(out, "{{\"k\":\"switch\",\"d\":{},\"ty\":{},\"ts\":[", op(discr), esc(&self.ty(discr.ty(&body.local_decls, tcx))));
                    for (i, (v, t)) in targets.iter().enumerate() {
                        if i > 0 {
                            out.push(',');
                        }
                        let _ = write!(out, "[\"{}\",{}]", v, bbn(&t));
                    }
                    let _ = write!(out, "],\"else\":{},\"s\":{}}}", bbn(&targets.otherwise()), tsp);
                }
                TerminatorKind::UnwindResume => out.push_str("{\"k\":\"resume\"}"),
                TerminatorKind::UnwindTerminate(_) => out.push_str("{\"k\":\"terminate\"}"),
                TerminatorKind::Return => {
                    let _ = write!(out, "{{\"k\":\"return\",\"s\":{}}}", tsp);
                }
                TerminatorKind::Unreachable => out.push_str("{\"k\":\"unreachable\"}"),
                TerminatorKind::Drop { place, target, unwind, .. } => {
                    let pt = place.ty(&body.local_decls, tcx).ty;
                    let _ = write!(
                        out,
                        "{{\"k\":\"drop\",\"pl\":{},\"ty\":{},\"t\":{},\"u\":{},\"s\":{}}}",
                        self.place(body, place.as_ref()),
                        esc(&self.ty(pt)),
                        bbn(target),
                        self.unwind(unwind),
                        tsp
                    );
                }
                TerminatorKind::Call { func, args, destination, target, unwind, fn_span, .. } => {
                    let _ = write!(out, "{{\"k\":\"call\",\"f\":{},\"args\":[", op(func));
                    for (i, a) in args.iter().enumerate() {
                        if i > 0 {
                            out.push(',');
                        }
                        out.push_str(&op(&a.node));
                    }
                    let _ = write!(out, "],\"dst\":{}", self.place(body, destination.as_ref()));
                    match target {
                        Some(t) => {
                            let _ = write!(out, ",\"t\":{}", bbn(t));
                        }
                        None => out.push_str(",\"t\":null"),
                    }
                    let _ = write!(out, ",\"u\":{},\"s\":{},\"fs\":{}}}", self.unwind(unwind), tsp, self.span(*fn_span));
                }
                TerminatorKind::TailCall { func, args, .. } => {
                    let _ = write!(out, "{{\"k\":\"tailcall\",\"f\":{},\"args\":[", op(func));
                    for (i, a) in args.iter().enumerate() {
                        if i > 0 {
                            out.push(',');
                        }
                        out.push_str(&op(&a.node));
                    }
                    let _ = write!(out, "],\"s\":{}}}", tsp);
                }
                TerminatorKind::Assert { cond, expected, msg, target, unwind } => {
                    let (mk, extra) = match &**msg {
                        AssertKind::BoundsCheck { len, index } => {
                            ("bounds".to_string(), format!(",\"len\":{},\"index\":{}", op(len), op(index)))
                        }
                        AssertKind::Overflow(b, l, r) => {
                            (format!("overflow:{:?}", b), format!(",\"a\":{},\"b\":{}", op(l), op(r)))
                        }
                        AssertKind::OverflowNeg(o) => ("overflow:Neg".to_string(), format!(",\"a\":{}", op(o))),
                        AssertKind::DivisionByZero(o) => ("divzero".to_string(), format!(",\"a\":{}", op(o))),
                        AssertKind::RemainderByZero(o) => ("remzero".to_string(), format!(",\"a\":{}", op(o))),
                        AssertKind::MisalignedPointerDereference { .. } => ("misaligned".to_string(), String::new()),
                        AssertKind::NullPointerDereference => ("nullptr".to_string(), String::new()),
                        other => (format!("other:{}", format!("{:?}", other).chars().take(40).collect::<String>()), String::new()),
                    };
                    let _ = write!(
                        out,
                        "{{\"k\":\"assert\",\"cond\":{},\"exp\":{},\"mk\":{}{},\"t\":{},\"u\":{},\"s\":{}}}",
                        op(cond),
                        expected,
                        esc(&mk),
                        extra,
                        bbn(target),
                        self.unwind(unwind),
                        tsp
                    );
                }
                TerminatorKind::Yield { .. } => out.push_str("{\"k\":\"yield\"}"),
                TerminatorKind::CoroutineDrop => out.push_str("{\"k\":\"coroutinedrop\"}"),
                TerminatorKind::FalseEdge { real_target, .. } => {
                    let _ = write!(out, "{{\"k\":\"goto\",\"t\":{}}}", bbn(real_target));
                }
                TerminatorKind::FalseUnwind { real_target, .. } => {
                    let _ = write!(out, "{{\"k\":\"goto\",\"t\":{}}}", bbn(real_target));
                }
                TerminatorKind::InlineAsm { .. } => out.push_str("{\"k\":\"asm\"}"),
            }
            out.push('}');
        }
        out.push_str("]}");
    }

    fn adts(&self, out: &mut String) {
        let tcx = self.tcx;
        out.push_str("\"adts\":{");
        let mut first = true;
        for ldid in tcx.hir_crate_items(()).definitions() {
            let did = ldid.to_def_id();
            let kind = tcx.def_kind(did);
            if !matches!(kind, DefKind::Struct | DefKind::Enum | DefKind::Union) {
                continue;
            }
            let adt = tcx.adt_def(did);
            if !first {
                out.push(',');
            }
            first = false;
            let _ = write!(out, "{}:{{\"path\":{},\"kind\":{},\"variants\":[", esc(&tcx.item_name(did).to_string()), esc(&self.path(did)), esc(&format!("{:?}", kind)));
            for (vi, v) in adt.variants().iter().enumerate() {
                if vi > 0 {
                    out.push(',');
                }
                let _ = write!(out, "{{\"name\":{},\"fields\":[", esc(&v.name.to_string()));
                for (fi, f) in v.fields.iter().enumerate() {
                    if fi > 0 {
                        out.push(',');
                    }
                    let fty = tcx.type_of(f.did).instantiate_identity().skip_norm_wip();
                    let _ = write!(out, "{{\"n\":{},\"ty\":{},\"pub\":{}}}", esc(&f.name.to_string()), esc(&self.ty(fty)), f.vis.is_public());
                }
                out.push_str("]}");
            }
            out.push_str("]}");
        }
        out.push('}');
    }
}

struct Cb {
    krate: String,
    outdir: String,
}

impl Callbacks for Cb {
    fn after_analysis<'tcx>(&mut self, _c: &Compiler, tcx: TyCtxt<'tcx>) -> Compilation {
        let ex = Ex { tcx, krate: self.krate.clone() };
        let mut out = String::with_capacity(32 << 20);
        let _ = write!(out, "{{\"crate\":{},", esc(&self.krate));
        let cfgs: Vec<String> = std::env::args().filter(|a| a.starts_with("feature=")).collect();
        let _ = write!(out, "\"features\":{},", esc(&cfgs.join(",")));
        let _ = write!(
            out,
            "\"overflow_checks\":{},\"debug_assertions\":{},",
            tcx.sess.overflow_checks(),
            tcx.sess.opts.debug_assertions
        );
        ex.adts(&mut out);
        out.push_str(",\"bodies\":[");
        let mut first = true;
        let mut n = 0usize;
        for ldid in tcx.hir_body_owners() {
            let kind = tcx.def_kind(ldid.to_def_id());
            if !matches!(kind, DefKind::Fn | DefKind::AssocFn | DefKind::Closure) {
                continue;
            }
            if !first {
                out.push(',');
            }
            first = false;
            ex.body(ldid, &mut out);
            n += 1;
        }
        let _ = write!(out, "],\"n_bodies\":{}}}", n);
        let path = format!("{}/mir-{}.json", self.outdir, self.krate);
        std::fs::write(&path, out).expect("asd-mir: cannot write fact file");
        Compilation::Continue
    }
}

struct Nop;
impl Callbacks for Nop {}

fn main() {
    let mut args: Vec<String> = std::env::args().collect();
    // RUSTC_WORKSPACE_WRAPPER: argv[1] is the path of the real rustc
    if args.len() > 1 && (args[1].ends_with("rustc") || args[1].contains("/rustc")) {
        args.remove(1);
    }
    let mut krate = None;
    let mut i = 0;
    while i < args.len() {
        if args[i] == "--crate-name" && i + 1 < args.len() {
            krate = Some(args[i + 1].clone());
        }
        i += 1;
    }
    let wanted: Vec<String> = std::env::var("ASD_CRATES").unwrap_or_default().split(',').map(|s| s.to_string()).collect();
    let outdir = std::env::var("ASD_FACTS_DIR").unwrap_or_default();
    let is_test = args.iter().any(|a| a == "--test");
    match krate {
        Some(k) if wanted.contains(&k) && !outdir.is_empty() && !is_test => {
            let mut cb = Cb { krate: k, outdir };
            rustc_driver::run_compiler(&args, &mut cb);
        }
        _ => {
            rustc_driver::run_compiler(&args, &mut Nop);
        }
    }
}

#!/usr/bin/env python3
"""mkknown.py - regenerate tables/known_functions.json from the facts of the current /repo tree.
Run after a change to /repo that was read and whose new functions the rules should treat as functions of their own
(every function NOT in the table is virtually inlined into its callers, see rules/inline.py)."""
import json, os, sys
V = os.path.dirname(os.path.dirname(os.path.abspath(__file__)))
sys.path.insert(0, V); sys.path.insert(0, os.path.join(V, 'rules'))
import importlib.machinery, importlib.util
ld = importlib.machinery.SourceFileLoader('check', os.path.join(V, 'check'))
spec = importlib.util.spec_from_loader('check', ld); check = importlib.util.module_from_spec(spec); ld.exec_module(check)
facts = check.ensure_facts('dev')
fns = []
sigs = {}
for c in ('autosar_data', 'autosar_data_specification'):
    d = json.load(open(os.path.join(facts, 'mir-%s.json' % c)))
    clos = {}
    for b in d['bodies']:
        if b['kind'] == 'Closure':
            base = b['id'].split('::{closure#')[0]
            clos.setdefault(base, []).append(b)
    for b in d['bodies']:
        if b['kind'] == 'Closure':
            continue
        fns.append(b['id'])
        callees = set()
        for x in [b] + clos.get(b['id'], []):
            for blk in x['blocks']:
                t = blk['term']
                if t['k'] == 'call' and isinstance(t['f'], dict) and t['f'].get('fn'):
                    callees.add(t['f'].get('res') or t['f']['fn'])
        # signature and callee set: used to recognise the function again after it was renamed / moved (rules/inline.py reconcile_renames)
        sigs[b['id']] = {'argc': b['argc'], 'args': [l['ty'] for l in b['locals'][1:b['argc'] + 1]], 'ret': b['ret'], 'callees': sorted(callees)}
head = os.popen('git -C /repo rev-parse --short HEAD').read().strip()
json.dump({'generated_at_repo_head': head, 'note': 'functions the rules were written against; any other function is virtually inlined into its callers (rules/inline.py)',
           'functions': sorted(set(fns)), 'signatures': sigs}, open(os.path.join(V, 'tables', 'known_functions.json'), 'w'), indent=0)
print(len(set(fns)), 'functions')

#!/usr/bin/env python3
"""(development aid) compute the reference skeleton hashes used by rules/c18.py from a facts dir whose
source was READ and confirmed by hand to have the documented shape. Not run by any check."""
import sys, json, os
sys.path.insert(0, os.path.join(os.path.dirname(os.path.abspath(__file__)), '..', 'rules'))
import c18
syn = json.load(open(os.path.join(sys.argv[1], 'syn.json')))['files']
lib = syn[c18.SPEC + 'lib.rs']
hf = [f for f in lib['fns'] if f['name'] == 'hashfunc'][0]
holes = []
out = {'hashfunc_skeleton': c18.sha(c18.skeleton(hf['body'], holes))}
print('hashfunc holes', holes)
fbs = set(); tss = set()
for fname, enum in (('elementname.rs', 'ElementName'), ('attributename.rs', 'AttributeName'), ('enumitem.rs', 'EnumItem')):
    f = syn[c18.SPEC + fname]
    fb = [x for x in f['fns'] if x['name'] == 'from_bytes' and x['owner'] == enum][0]
    ts = [x for x in f['fns'] if x['name'] == 'to_str' and x['owner'] == enum][0]
    tss.add(c18.sha(json.loads(json.dumps(c18.strip(ts['body'])).replace(enum, 'ENUM'))))
    fh = []
    fsk = c18.skeleton(fb['body'], fh)
    fsk = json.loads(json.dumps(fsk).replace(enum, 'ENUM').replace('Parse%sError' % enum, 'PARSEERR'))
    for s0 in fsk['stmts']:
        if s0.get('k') == 'static' and s0.get('name') == 'DISPLACEMENTS':
            s0['e'] = 'DATA'; s0['ty'] = 'TY'
    fbs.add(c18.sha(fsk))
print(fbs, tss)
assert len(fbs) == 1 and len(tss) == 1
out['from_bytes_skeleton'] = fbs.pop(); out['to_str_body'] = tss.pop()
json.dump(out, open(os.path.join(os.path.dirname(os.path.abspath(__file__)), '..', 'tables', 'c18_skeletons.json'), 'w'), indent=1)
print(out)

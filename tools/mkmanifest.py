#!/usr/bin/env python3
"""Generate /verif/MANIFEST.json from the table below (one entry per claimed property)."""
import json, os
V = os.path.dirname(os.path.dirname(os.path.abspath(__file__)))

SETUP = ("set -e; export CARGO_NET_OFFLINE=true; "
         "(cd tools/asd-mir && cargo +nightly build --offline) && "
         "(cd tools/asd-syn && cargo build --offline) && "
         "mkdir -p .facts evidence")

CLAIMS = {
    'C08': dict(level='proof', technique='static non-interference proof on MIR: who-reads/who-writes of the strict flag and warning list, def-use flow of the strict parameter, Result-propagation dataflow, dominance (must-pass-through) of every validation call',
                text='Proof, relative to the stated meta-argument, that strict and lenient parsing execute identically up to the first call of the single funnel optional_error (premises R1-R5 checked on the MIR of every body), hence agree for ALL inputs; plus must-pass-through obligations showing every documented validation call lies on every path to the point where the item is accepted.',
                note='Trusted: rustc MIR + Instance::try_resolve, the fact extractor, the dominance/reachability code, the meta-argument in DESIGN.md §4 C08. The no-holes clause shows checks are always reached, not that each check function is itself correct (C18/C19 cover tables and validators).',
                ref='§4 C08'),
}

CLAIMS['C19'] = dict(level='proof', technique='language equivalence of deterministic automata: regex -> NFA -> DFA vs. validator (transition table read from the literal / abstract interpretation of the boolean slice expression / exploration of loop-head configurations over the syntax tree), product construction with shortest distinguishing string',
    text='Decides, for every (check_fn, regex) pair in the CHARACTER_DATA literal, equality of the accepted language with the language of the published regex over ALL byte strings (not samples), and absence of index panics in the validator; refuted pairs are reported with a shortest distinguishing string (six validators of the pinned tree accepted supersets and were repaired by fix: commits; all 29 pairs are proven equal on the current tree).',
    note='Trusted: syn + asd-syn, the regex parser (XSD semantics: "." excludes \\n and \\r) and automata library, the validator readers (table shape, abstract interpretation of slice expressions, configuration exploration of single-loop validators in rules/foldinterp.py; fail closed outside the fragment; the table reading and the explored reading are compared on every run). obligations = pairs + engine-agreement obligations; discharged = obligations on the current tree.',
    ref='§4 C19')

CLAIMS['C18'] = dict(level='proof', technique='exact finite decision over literal tables extracted from the syntax tree (bijections, index ranges, acyclicity, perfect-hash totality via a source-tied arithmetic model) + MIR structure rules (comparison dominates transmute, sibling listing/lookup column agreement, table-index provenance)',
    text='Exhaustive: every name of ElementName/AttributeName/EnumItem, all 21 versions and every cell of the specification tables is examined on each run; the name<->text bijection and rejection of non-members follow for ALL inputs from (discriminants = table indices) + (byte comparison dominates transmute). Listing/lookup agreement and DEST consistency are shown structurally (same cells read by both siblings).',
    note='Trusted: syn + asd-syn literal extraction; the arithmetic model of hashfunc (tied to the source by skeleton hash and role-extracted constants; fails closed if hashfunc is restructured); little-endian target; rustc MIR. Does not decide agreement of the tables with the AUTOSAR XSDs.',
    ref='§4 C18')

CLAIMS['C03'] = dict(level='other', technique='MIR event pairing (dominance / post-dominance on Ok paths) of content-list edits with parent-link edits, canonical deleted state, must-pass-through of liveness funnels over a call-graph fixpoint, closed-world who-may-write ledger',
    text='Decides structural necessary conditions of the tree property on every path of every body: both directions of the parent/child relation are edited together, the deleted state is canonical (parent None, no content, no local membership), each of the 23 place-dependent public methods passes a propagated liveness funnel on every path to an Ok exit and the funnels reject deleted elements, and the set of functions that write the relation is closed. Three genuine defects found by these rules were repaired (fix: commits). Also: position() counts over the content list that the position-taking functions index, the tree iterators end a level only at the item count, and the file-scoped iterator returns an element only behind its own membership test. Does not decide iterator/tree agreement for all histories.',
    note='Identity of the inserted element and the element whose parent is set is approximated by co-occurrence in one function plus dominance; reviewed exemptions (text-only edits, sort) are listed with reasons in rules/c03.py and re-verified where a premise is checkable.',
    ref='§4 C03')
CLAIMS['C04'] = dict(level='other', technique='MIR event pairing of structural edits and SHORT-NAME writes with path-index maintenance (dominance / all-Ok-paths), must-pass-through of the uniqueness lookup with its Some edge blocked, deviance rule for prefix re-keying, parameter-provenance rule for the two models of a cross-model move',
    text='Decides that every event which changes which identifiable elements exist or what their paths are is paired with the matching edit of the path index on all paths, that names are checked for uniqueness before installation (one known finding: direct SHORT-NAME edit), and that prefix re-keying is segment-safe. Does not decide index = tree after arbitrary histories.',
    note='Reviewed ledger of trigger sites in rules/c04.py; a new trigger site is reported until reviewed. Known finding: Element::set_character_data on SHORT-NAME skips the uniqueness check (documented API use).',
    ref='§4 C04')

CLAIMS['C05'] = dict(level='other', technique='MIR event pairing of reference-text writes and subtree edits with reverse-map maintenance (dominance / all-paths incl. error exits), Engler-style deviance rule on HashMap::insert, sibling column agreement between the invalid-reference report and the resolver',
    text='Decides that every write of a reference text and every subtree insertion/removal is paired with the matching edit of reference_origins on all paths, that no exit separates the index edit from the text write, that no referrer list is silently overwritten (found and repaired: rename/move dropped pre-existing referrers of the new path), and that check_references and get_reference_target apply the same four tests. Does not decide map = references in the tree after histories. Also: retargeting a reference removes the referrer from the old list and adds it to the new list under one write lock of the model (no window in which the reference is in no list).',
    note='Path-insensitive: value-dependent pattern failures (non-string value, not a reference) are cut as infeasible edges and listed in the rule; identity by co-occurrence + variable provenance.',
    ref='§4 C05')
CLAIMS['C06'] = dict(level='other', technique='ordered must-pass-through obligations (dominance / all-Ok-paths) on the MIR of the rename and the two move workers, provenance of the rewrite loop iterable and of key vs. text',
    text='Decides that on the item-name path and both move paths every Ok path performs all maintenance steps in order (re-key path index, rewrite every referrer, re-key the referrer map, register in the destination), that the rewrite loop runs over exactly the paths collected from the moved subtree before unlinking, and that rewritten text and stored key agree. Does not decide that each reference resolves to the same object afterwards. Also (premises shared with C04/C05): the re-keying of the path index scans every key, and no operation on the referrer map replaces or drops a list that may hold referrers.',
    note='Scoped to ElementRaw::{set_item_name, move_element_local, move_element_full} and their public entry points.',
    ref='§4 C06')

CLAIMS['C15'] = dict(level='other', technique='static lock-order analysis: guard-liveness forward dataflow on drop-elaborated MIR, lock-owner provenance (self/parameter/child/parent/root/lookup/fresh), acquisition summaries to a fixpoint over the resolved call graph incl. closures, verdict per (held, acquired) pair against the documented order',
    text='Decides whether every blocking acquisition in the crate respects the one partial order Element(ancestor) < Element(descendant) < Model < File; if all do, no set of threads can form a wait cycle under ANY interleaving. On the pinned tree 39 order-violating edges remain (known findings, one per edge key; three verdict classes reproduced as real deadlocks of two OS threads); 12 were removed by a fix: commit. Any new violating edge (e.g. a try-lock turned blocking, a guard held across a call that locks upward) is a VIOLATION. While inverted edges exist, the functions that await the model lock with an element lock held are a closed set (tables/c15_up_edges.json): a new one closes new wait cycles with the known inversions and is reported (C15-CYCLE).',
    note='Sound for "no wait cycle" up to the provenance abstraction, which only ever adds edges; trait-object calls (dyn Debug) are not followed; three edges on objects not yet shared are reviewed exceptions (tables/c15_reviewed.json) with a checked premise. Does not decide starvation under the 10 ms timeouts.',
    ref='§4 C15')

CLAIMS['C02'] = dict(level='other', technique='closed-world ledger over the call-graph closure of the loader entry points: every MIR Assert terminator and every call of a panicking library entry point is enumerated and discharged by an automatic rule (dominating compare, usize+const, table index proven by C18) or a reviewed guard with machine-checked guard facts; loop-progress and recursion analysis; who-writes rule for error line numbers; sibling agreement of header probe and loader',
    text='Decides that the set of panic-capable operations reachable from load_buffer/load_file/check_buffer/check_file is closed and fully discharged (three confirmed panics were repaired by fix: commits), that every loop in the closure makes progress, whether recursion depth is input controlled (it is: known finding, stack exhaustion confirmed), that errors carry the live line counter, and that the header probe performs a prefix of the loader on the whole buffer. Does not prove the reviewed guards for all byte strings. Readers of the lexer count as loop progress only when every return path has moved the read position or carries an error (must-advance summary).',
    note='Reviewed entries (tables/panic_ledger.json) are trusted value arguments; each lists guard facts (a comparison on a named variable, a call) that must still be present. A new panic-capable operation in the closure is reported until reviewed (closed world).',
    ref='§4 C02')
CLAIMS['C12'] = dict(level='other', technique='single-thread reading of the static lock graph (self-deadlock: same object or aliasable arguments without == guard; spurious errors: try/timed acquisition of a possibly held object), closed panic ledger / loop progress / recursion over all public entry points, exhaustive data rule over the specification tables',
    text='Decides (a) no blocking acquisition of a lock the same call chain may hold exclusively, (b) no error-producing try/timed acquisition of such a lock, (c) the closed, discharged ledger of panic-capable sites reachable from all public items of both crates, (d) loop progress, (e) recursion bounded by the specification. Confirmed defects found: self-argument hangs, insert-range unwrap, spec lookups with invalid positions (repaired); move-to-ancestor always fails with ParentElementLocked, tree-depth recursion, one unreachable! in the spec API (known findings).',
    note='Same trust base as C02 for reviewed guards; lock part shares the provenance abstraction of C15.',
    ref='§4 C12')

CLAIMS['C11'] = dict(level='other', technique='flow-sensitive effect analysis on MIR: mutation events (stores and container mutators on fields of the three raw state structs, calls of may-mutate functions from a call-graph fixpoint, fresh objects exempt) against Err exits (Err literals and ?-propagation with source callee, success-edge refinement), interprocedural "may fail after mutating" fixpoint',
    text='Decides validate-before-mutate: in every Result-returning function reachable from the public API no path leads from a mutation of model state to an error return, unless the pair is reviewed as infeasible (17 pairs, with reasons and checked premises) or is a known finding (35 pairs in the load/merge and move paths, both classes confirmed by failing runs). One confirmed defect (set_reference_target) was repaired. Any new early mutation, validation moved below a write, or removed rollback shows up as a new pair.',
    note='Path-insensitive: feasibility of a reported pair is decided by triage, not by the checker; reviewed pairs are keyed exactly (function, mutation, error source).',
    ref='§4 C11')

CLAIMS['C13'] = dict(level='other', technique='MIR provenance rules on deep_copy / create_copied_sub_element* / duplicate: source of every stored child (recursive deep_copy result only), by-value copies of value types checked against the ADT table, lock mode per owner (write only on fresh objects), field coverage against the ADT, provenance of membership handles',
    text='Decides that a copy shares no node with its source, that the source is only read-locked, that every field of ElementRaw is copied or deliberately reset, and that duplicate() builds the copy only through the new model (files, content, standalone flag, membership handles). Registration of the copy in both indexes is decided by C04/C05. Does not decide textual equality of serialisations or which parts a cross-version copy omits.',
    note='The type-level part (no public constructor of Element from ElementRaw, no access to the inner Arc) rests on Rust privacy of pub(crate)/private fields, visible in the ADT table (field visibility is checked).',
    ref='§4 C13')
CLAIMS['C14'] = dict(level='other', technique='MIR write-set closure of sort over the call graph, control-dependence of clear() on !is_ordered() and the content mode, must-pass-through of the refill loop with provenance of its iterable, comparator shape',
    text='Decides ONLY that sorting permutes the content list: its transitive write-set is {ElementRaw.content}, it never reorders a type marked ordered, it re-inserts exactly the handles it collected (every Element item is collected, the refill loop is on every path after the clear, nothing can exit in between), the comparator orders by specification position first, children are sorted before their parents are compared, and Element::cmp never lets a predicate relating BOTH operands choose the comparison (the construct that made the order non-transitive on the pinned tree - a2 < a10 < a1b < a2 - found by this rule and repaired). Idempotence and independence of the initial order for all trees are NOT decided beyond these structural conditions (they need a total order on run-time values).',
    note='Narrow necessary conditions; stated as such.',
    ref='§4 C14')

CLAIMS['C17'] = dict(level='other', technique='sibling column agreement on MIR between the validator (parser.rs) and the compatibility walk (which version accessors each calls, on which data), control-dependence of the version store on the compatibility gate, accumulation of the returned mask',
    text='Decides that the compatibility walk consults every version column the validator consults (sub-element mask, re-selected element type, attribute mask, enum masks of attribute values AND of element character content - the last one was missing and was repaired), that ArxmlFileRaw.version is stored only by the constructors and behind the `no incompatibility` edge of set_version, which writes nothing else, and that the returned mask is the AND of every consulted mask. Does not decide the iff for all documents x 21^2 version pairs.',
    note='Shape only: a wrong condition inside a consulted accessor is invisible here (C18 covers the tables).',
    ref='§4 C17')

CLAIMS['C10'] = dict(level='other', technique='sibling predicate agreement by cut-set/reachability on MIR CFGs (four per-file views), may-mutate call-graph summary x tree-iterator loops, true-edge guards (must-pass) for membership writes, must-pass of the rollback on the merge failure edge',
    text='Decides structural necessary conditions only: the serializer (both arms), the file-scoped iterator and the per-file compatibility walk select sub elements by the same predicate membership.is_empty() || membership.contains(view file); the element tree is never modified inside a loop that advances one of the index-based tree iterators; add_to_file/remove_from_file change file sets only after file.model()==self.model() and the splittable test; the file API deletes elements only through remove_sub_element; a failed merge is rolled back through remove_from_file before the file joins model.files. Does NOT decide the inheritance invariant (child restricted only to files that contain its parent) under arbitrary histories, nor that every element is written to some file.',
    note='Narrow necessary conditions; the membership algebra itself is a run-time relation between sets.',
    ref='§4 C10')

CLAIMS['C09'] = dict(level='other', technique='dominance / must-pass / true-edge guard queries on the MIR CFGs of the merge functions, provenance (def-use) of the version deciding split points and of the file sets handed to the recursion, order of membership update vs recursion by reachability, error propagation, loop progress',
    text='Decides structural necessary conditions only: an element of the new file is queued for import only if it was not already paired with a model element; an imported element is attributed to the new file alone, re-parented and inserted at a position clamped into calc_element_insert_range (failure = InvalidFileMerge); model-only elements are restricted to the files the parent had before; the recursion receives the file set without the new file and a local set gains the new file only afterwards; a divergence below a parent is accepted only if splittable_in(min(version of the old files, version of the new file)); merge errors are propagated to load_buffer; the pairwise walk always advances. Does NOT decide that the merged content is the union for every distribution over files nor that it is independent of the load order.',
    note='Narrow necessary conditions; union/order-independence are equalities between run-time trees built by a data-dependent positional walk.',
    ref='§4 C09')

CLAIMS['C07'] = dict(level='other', technique='dominance and true-edge guard (must-pass) queries on MIR for every element insertion and value store, who-may-call closure of the inserting functions over the resolved call graph, sibling agreement of all find_attribute_spec users on the version column, DATA rule on the literal tables',
    text='Decides that editor and validator consult the same specification columns: all 8 entry points that add a sub element consult calc_element_insert_range(name, file version) first and insert at a position from/within that range; the inserting helpers have no other callers; created elements get the type of a version-specific lookup, copied elements the type the destination prescribes, moved elements are accepted only if their type equals it; inside the range computation version-independent lookups occur only as or_else fallback; every store of character data / attribute values is behind check_value or parse (reviewed exceptions listed, one known finding); every find_attribute_spec user tests the attribute version mask. Does NOT decide that the computed insert range is exactly the set of order-preserving positions, nor the serializer/loader round trip.',
    note='Three genuine defects found by these rules were repaired (attribute version in the setters, type of copied and of moved elements); one is recorded (over-long generated item name).',
    ref='§4 C07')

CLAIMS['C01'] = dict(level='other', technique='sibling table agreement: the writer and reader escaping tables are extracted from the syntax trees (syn) of escape_text / unescape_string and compared pair by pair; MIR def-use provenance for every stored string (through the unescaper or a reported fallback), for the untrimmed origin of whitespace-preserving text, for value writes (only through the escaping writer) and for field coverage reader vs writer',
    text='Decides structural necessary conditions only: the writer escapes < & " and its fast path tests for them; every writer pair (c, &name;) has a reader arm that maps it back and skips its length, named entities before numeric forms; every CharacterData::String built by the value parser went through unescape_string or a reported UTF-8 fallback; the whitespace-preserving kind converts the untrimmed input; element text and attribute values are written only through CharacterData::serialize_internal/escape_text inside double quotes; every ElementRaw field, the standalone flag and every CharacterDataSpec column stored/used by the reader is emitted/read. Does NOT decide whitespace trimming rules, layout, number formatting, comments placement or byte identity of the second serialisation.',
    note='One genuine defect found by C01-SIB-reader was repaired (entities in pattern-validated text).',
    ref='§4 C01')

CLAIMS['C20'] = dict(level='other', technique='sibling table agreement on syntax trees (prefix -> radix chains of parse_integer / parse_float, boolean table) plus MIR-resolved formatter/parser pairs per value kind',
    text='Decides ONLY the structural clauses: parse_integer and parse_float use the AUTOSAR prefix table (0x/0X->16, 0b/0B->2, leading 0->8, default decimal), the same table in both, with the literal "0" and the two-character prefixes tested before the octal arm; parse_bool maps true|1 and false|0 and nothing else; each value kind is formatted by the std routine whose inverse the value parser (API and loader) uses; the text written for a String value is read back to the same value (escape tables of writer and loader inverse and complete, shared with C01). Does NOT decide exactness, correct rounding, overflow handling or the statement for all texts: those are run-time properties of std parsers (u64::from_str_radix, f64::from_str, `as f64`) that no static argument in reach bounds.',
    note='Narrow necessary conditions of a property that is otherwise not applicable to static analysis; stated as such.',
    ref='§5 / §11.7 C20')

CLAIMS['C16'] = dict(level='other', technique='flow analysis on MIR: call-graph fixpoint for "may return ParentElementLocked" (variant built, or Result of such a callee propagated by ?), intersected with the (mutation, Err exit) pairs of the validate-before-mutate analysis',
    text='Decides ONLY the exception clause of the property: an operation that fails with the documented parent-locked error has had no effect, i.e. in no public-reachable function does a CFG path lead from a mutation of model state to an exit that can carry ParentElementLocked. Plus three narrow atomicity / exclusion clauses: get_or_create_sub_element / get_or_create_named_sub_element look for the existing sub element and create it under ONE write guard, create_file checks the name and adds the file under one guard (C16-MUST-atomic), and every call from an Element:: method to a may-mutate ElementRaw:: method goes through a write-family guard (C16-MUST-exclusive). Serializability of concurrent interleavings (results and final state equal to some sequential order) is NOT decided: it quantifies over schedules and compares with sequential runs, and the only static route (two-phase / reduction analysis) rejects essentially every public operation of the present design.',
    note='Narrow clause of a property that is otherwise not applicable; one defect found by it was repaired (SHORT-NAME edit), one is a known finding.',
    ref='§5 / §11.8 C16')

NA = {
}

PENDING = {}


def main():
    props = [json.loads(l)['id'] for l in open(os.path.join(V, 'properties.jsonl'))]
    checks = []
    for pid in props:
        if pid in CLAIMS:
            c = CLAIMS[pid]
            checks.append({
                'property_id': pid,
                'quick_cmd': './check %s --tier quick' % pid,
                'thorough_cmd': './check %s --tier thorough' % pid,
                'evidence_file': 'evidence/%s.json' % pid,
                'replay_cmd_template': './check %s --replay {path}' % pid,
                'engine': 'asd-static',
                'level_claimed': {'category': c['level'], 'text': c['text'], 'design_ref': 'DESIGN.md ' + c['ref']},
                'level_note': c['note'],
                'technique': c['technique'],
            })
    na = []
    for pid in props:
        if pid in CLAIMS:
            continue
        if pid in NA:
            na.append({'property_id': pid, 'reason': NA[pid]})
        else:
            na.append({'property_id': pid, 'reason': PENDING.get(pid, 'static check for this property is designed (DESIGN.md §4) but not yet built/registered in this commit; not claimed until its rule module has floors and a triaged run')})
    m = {
        'version': 1,
        'setup_cmd': SETUP,
        'hooks': {
            'guard': 'asd_verif',
            'enable': 'none needed: the checks read /repo\'s source as it is (MIR via a rustc_private driver under cargo +nightly check, syntax via syn); no hook code exists in /repo',
            'baseline_off_cmd': 'cd /repo && cargo test --workspace --no-fail-fast --offline',
            'source_commits': [],
            'add_only': True,
        },
        'engines': [
            {'name': 'asd-mir', 'path': 'tools/asd-mir', 'serves_properties': sorted(CLAIMS), 'kind_free_text': 'rustc_private driver: resolved MIR facts (calls, places with field names, guards, asserts) as JSON'},
            {'name': 'asd-syn', 'path': 'tools/asd-syn', 'serves_properties': [p for p in ('C01', 'C18', 'C19') if p in CLAIMS], 'kind_free_text': 'syn 2 extractor: literal tables, enum discriminants, validator ASTs'},
            {'name': 'asd-static', 'path': 'rules', 'serves_properties': sorted(CLAIMS), 'kind_free_text': 'Python rule library: CFG/dominators, def-use, effect summaries, lock-order graph, automata; one module per property'},
        ],
        'checks': checks,
        'not_applicable': na,
        'notes': 'Technique family: static analysis only. Every check re-extracts facts from /repo\'s current working tree (cached by source hash under .facts/). Known findings: known_findings.json.',
    }
    with open(os.path.join(V, 'MANIFEST.json'), 'w') as f:
        json.dump(m, f, indent=1)
    print('MANIFEST.json: %d checks, %d not_applicable' % (len(checks), len(na)))


if __name__ == '__main__':
    main()
